import pandas as pd, dask, dask.dataframe as dd
from dask import delayed
df=pd.DataFrame({'s':['b','c','c','a'],'v':[100,101,102,103],'x':[1.,2.,3.,4.]}, index=[0,0,0,2])
with dask.config.set(scheduler='synchronous'):
    ddf=dd.from_pandas(df,npartitions=1,sort=False)
    ddf=ddf[ddf['v']%3!=0]
    ddf=ddf[ddf['s']!='b']
    print(ddf.compute())
    sub=ddf.partitions[[0]]
    try:
        print(dask.compute(*sub.to_delayed()))
    except Exception as e: print('to_delayed path:', type(e).__name__, e)
    try:
        d=sub.to_delayed()
        r=dd.from_delayed([delayed(lambda x: x)(d[0])], meta=ddf._meta)
        print(r.compute())
    except Exception as e: print('from_delayed path:', type(e).__name__, e)
