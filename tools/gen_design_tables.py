#!/venv/bin/python
"""Regenerate the tables of DESIGN.md section 8 (findings) and section 9 (seeded changes)
from known_findings.json and seeded/*/meta.json.  The prose around the tables is kept."""
import glob
import json
import os
import re

V = os.path.dirname(os.path.dirname(os.path.abspath(__file__)))
s = open(f"{V}/DESIGN.md").read()

# ---- section 8 table
k = json.load(open(f"{V}/known_findings.json"))
rows = []
for f in k["findings"]:
    if f["status"] == "fixed":
        txt = f["text"]
        txt = re.sub(r"^fixed: property=C\d+ \w+ ", "", txt)
        rows.append(f"| {f['id']} | {f['property']} | fixed `{f['commit']}` | {txt} | "
                    f"`{f.get('regression_case', '')}` |")
    else:
        rows.append(f"| {f['id']} | {f['property']} | **known finding** | {f['text']} | "
                    f"`{f.get('example', '')}` |")
head8 = "| id | property | status | what failed | case |\n|---|---|---|---|---|\n"
a = s.index(head8)
b = s.index("\n\n", a + len(head8))
s = s[:a] + head8 + "\n".join(rows) + s[b:]

# ---- section 9 table
rows = []
n = caught = 0
for d in sorted(glob.glob(f"{V}/seeded/S*"), key=lambda x: int(os.path.basename(x)[1:].split("-")[0])):
    m = json.load(open(d + "/meta.json"))
    n += 1
    if m["caught_by"]:
        caught += 1
    rows.append(f"| `{os.path.basename(d)}` | {m['breaks_property']} | "
                f"{', '.join(m['caught_by']) or '-'} | {', '.join(m['not_caught_by']) or '-'} | "
                f"{m.get('note', '')} |")
head9 = ("| seeded change | breaks | caught by (quick tier) | not caught by | remark |\n"
         "|---|---|---|---|---|\n")
a = s.index(head9)
b = s.index("\n\n", a + len(head9))
s = s[:a] + head9 + "\n".join(rows) + s[b:]
open(f"{V}/DESIGN.md", "w").write(s)
print(f"tables regenerated: {len(k['findings'])} findings, {n} seeded changes ({caught} caught)")
