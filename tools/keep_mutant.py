#!/venv/bin/python
"""keep_mutant.py <ID> <A|B> <seeded-id> "<caught by ...>" : copy a confirmed seeded change
from the sub-agent's scratch worktree into /verif/seeded/<seeded-id>/ (patch.diff, demo.py,
meta.json).  Confirmation results are read from /tmp/scratchpad/confirm-batch*.log."""
import glob
import json
import os
import re
import shutil
import sys

pid, v, sid, caught = sys.argv[1:5]
missed = sys.argv[5] if len(sys.argv) > 5 else ""
w = f"/tmp/wt/{pid}"
prop = pid[:3]
dst = f"/verif/seeded/{sid}"
os.makedirs(dst, exist_ok=True)
shutil.copy(f"{w}/patch{v}.diff", f"{dst}/patch.diff")
shutil.copy(f"{w}/demo{v}.py", f"{dst}/demo.py")
meta_txt = open(f"{w}/meta.txt").read()
confirm = None
for f in sorted(glob.glob("/tmp/scratchpad/confirm-batch*.log")):
    for line in open(f):
        if line.startswith(f"RESULT {pid}{v} "):
            confirm = line.strip()
m = re.search(r"demo_clean_exit=(\d+) demo_patched_exit=(\d+) suite_pass_missing=(\d+) (\d+)",
              confirm or "")
meta = {
    "id": sid,
    "breaks_property": prop,
    "source": f"independent sub-agent given only the text of {prop} and a scratch worktree of /repo",
    "description_by_author": meta_txt,
    "confirmed_by_me": {
        "demo_exit_on_clean_checkout": int(m.group(1)) if m else None,
        "demo_exit_with_patch": int(m.group(2)) if m else None,
        "pinned_suite_stable_tests_passing_with_patch": int(m.group(3)) if m else None,
        "pinned_suite_stable_tests_missing_with_patch": int(m.group(4)) if m else None,
        "how": "tools/confirm_mutant.sh in the scratch worktree: demo on clean checkout, demo with "
               "the patch applied, pinned test suite with the patch applied (junit vs BASELINE.json)",
    },
    "checks_run": "tools/run_mutant.sh: git -C /repo apply patch.diff; ./check <ID> --tier quick; "
                  "git -C /repo checkout -- .",
    "caught_by": [c for c in caught.split(",") if c],
    "not_caught_by": [c for c in missed.split(",") if c],
}
json.dump(meta, open(f"{dst}/meta.json", "w"), indent=1)
print("kept", sid, meta["caught_by"], meta["not_caught_by"])
