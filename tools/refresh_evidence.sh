#!/bin/sh
# refresh_evidence.sh [tier] : run every registered check once on the current tree (VERIF_SEED default 0)
# so that evidence/*.json comes from /verif run against /repo itself; prints one line per check.
T=${1:-quick}
cd /verif || exit 2
git -C /repo status --short | grep -q . && { echo "/repo has uncommitted changes"; exit 2; }
for p in C04 C06 C09 C10 C11 C12 C16 C18 C19 C20; do
  out=$(./check $p --tier $T 2>&1); rc=$?
  echo "EVIDENCE check=$p exit=$rc $(echo "$out" | grep -E '^\[C..\] runs=' | cut -c1-110)"
  [ $rc -ne 0 ] && echo "$out" | tail -5
done
