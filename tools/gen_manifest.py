#!/venv/bin/python
"""Regenerate /verif/MANIFEST.json from the table below and validate it."""
import json
import os

VERIF = os.path.dirname(os.path.dirname(os.path.abspath(__file__)))

NA = {
    "C01": "pure function of (geometry element, box): no schedule, clock, fault, I/O or history "
           "for a simulator to control; input enumeration is a different technique",
    "C02": "pure function of (point, shape): nothing to schedule or fail",
    "C03": "one index build + one query is a pure function of (boxes, query, p, page_size); the "
           "index is immutable after construction",
    "C05": "pandas x pandas sjoin is a pure function of two frames and options (its Dask facet is "
           "decided under C06)",
    "C07": "pure integer bijection; nothing to schedule or fail",
    "C08": "pure function of (element, total_bounds, p)",
    "C13": "pure function of the array (Dask facet under C06, stored facet under C12)",
    "C14": "pure function of the element; the prange kernels are atomic steps below any seam",
    "C15": "pure function of the array",
    "C17": "metamorphic relation between two inputs of pure operations; inert rows are part of "
           "every claimed workload instead (C04, C06, C09, C10, C12)",
}

PENDING = "check not built yet in this round (planned: DESIGN.md section 5)"

CHECKS = {
    "C04": dict(
        engine="E4 sequential histories",
        category="exploration",
        text="The property quantifies over index-state histories. A seeded state machine over live "
             "objects (array / GeoSeries / GeoDataFrame with extra columns and arbitrary, possibly "
             "non-unique index; 7 kinds; missing, empty and duplicate rows; whole pages of inert rows) "
             "performs build_sindex(p in 1..31, page_size in {1,2,3,5,8,512}), lazy .sindex, derivations "
             "(slice, take, mask, iloc, copy, column subset, concat - the child may or may not inherit the "
             "index), pickle and parquet round trips ('restart'), and cx queries with present / omitted / "
             "reversed ends. Every cx result is checked for membership, order, labels and other columns "
             "against an exact Fraction-arithmetic reference geometry, and for identity with the same query "
             "on a fresh never-indexed twin built from the model. No fault or schedule dimension exists in "
             "this property; that is stated, not dressed up.",
        design_ref="DESIGN.md 5/C04, 2.5",
        note="trusted: the 120-line exact reference geometry (0 disagreements with intersects_bounds on "
             "151 200 generated pairs), pandas indexing; boxes of positive area only",
        technique="sequential layer of the simulator: seeded operation histories with restart steps, "
                  "refinement against an exact reference model + never-indexed twin",
    ),
    "C16": dict(
        engine="E4 sequential histories",
        category="exploration",
        text="The property quantifies over derivation histories. A seeded state machine derives arrays "
             "from arrays (integer index, slices with any step, masks, take with/without fill, concat, "
             "copy, iteration, Series/DataFrame wrapping with iloc/loc/mask, pickle and parquet round "
             "trips through SimFS as restart steps; chains up to depth 6; 7 kinds x 5 subtypes) and "
             "refines every step against a Python-list model: len, isna, every element, expected "
             "exception types, and bounds / total_bounds / length / area / intersects_bounds (whole and "
             "by positions) / intersects(shape) / hilbert_distance on the derived array against the same "
             "on a fresh array built from the model list.",
        design_ref="DESIGN.md 5/C16",
        note="no schedule, clock or fault exists in this property; when the fresh twin raises too the "
             "step is not comparable (counted); trusted: pyarrow take/slice/concat, pandas indexing",
        technique="sequential layer of the simulator: seeded derivation histories with restart steps, "
                  "refinement against a list model",
    ),
    "C20": dict(
        engine="E4 sequential histories + E2/E3 for the Dask half",
        category="exploration",
        text="Seeded operation histories over frames with 2-3 geometry columns whose active column is "
             "neither first nor called 'geometry': set_geometry, row selection (iloc, mask, query, head, "
             "take, sample), sort_values, copy, column subsets with / without the active column / without "
             "any geometry, cx, pickle, concat of agreeing frames, assign, rename; and Dask steps "
             "(from_pandas, Dask set_geometry, persist, compute, to_parquet + read_parquet_dask(geometry=)) "
             "executed by the simulated executor on SimFS. After each step: result type, .geometry.name, "
             "and use - cx, build_sindex, sjoin on the frame vs a single-geometry frame holding only the "
             "model's active column; for Dask the active name inside every partition (map_partitions), "
             "partition bounds against the active column's true extents and Hilbert packing.",
        design_ref="DESIGN.md 5/C20",
        note="the pandas half has no schedule or fault in it; merge is not listed by the property and not "
             "generated",
        technique="sequential operation histories against a (columns, active) model + deterministic "
                  "simulation of the Dask executor for the per-partition clause",
    ),
    "C11": dict(
        engine="E3 parquet store",
        category="exploration",
        text="The parquet files are treated as a store: seeded histories of writes (to_parquet; "
             "DaskGeoDataFrame.to_parquet with 1..12 partitions; 3 compressions) and reads (read_parquet, "
             "read_parquet_dask of a path / list / glob, optional columns=) over frames with 1-3 geometry "
             "columns of all 7 kinds x 5 coordinate subtypes, plain / sliced / concatenated backing "
             "arrays, missing and empty elements and five index kinds, executed on SimFS (permuted "
             "listings, atomic/progressive writes) under the simulated executor. Every read is compared "
             "with a row-level model: order, every element, kind and subtype per column, other values, "
             "index values and name, requested column order.",
        design_ref="DESIGN.md 5/C11",
        note="the kind x subtype sweep is input variation, the simulator contributes listing order, task "
             "schedule and several datasets side by side; trusted: pyarrow parquet codec, pandas",
        technique="deterministic simulation of storage + executor, acknowledged-write-is-readable "
                  "refinement against an in-memory map model",
    ),
    "C12": dict(
        engine="E3 parquet store",
        category="exploration",
        text="Datasets written by DaskGeoDataFrame.to_parquet and pack_partitions_to_parquet with 1..16 "
             "partitions (>= 11 in a fixed share) and 1-3 geometry columns are read back as single "
             "datasets, lists and globs, with and without geometry=, on SimFS with permuted listings under "
             "the simulated executor. Oracle: recorded bounds (private dict and public partition_bounds) "
             "equal, partition by partition in load order, a pure-Python tight extent of the rows each part "
             "file really holds; bounds=box keeps exactly the partitions whose extent overlaps the closed "
             "box (boxes touching an extent exactly, reversed corners, disjoint), bounds are re-indexed, and "
             "pruned.cx[box] equals the model rows intersecting by exact reference geometry.",
        design_ref="DESIGN.md 5/C12",
        note="trusted: pyarrow, the OS listing used for ground truth, the 120-line exact refgeom "
             "(validated against intersects_bounds on 151k pairs with zero disagreements)",
        technique="deterministic simulation of storage + executor, metadata-vs-data consistency against "
                  "an independent extent/intersection reference",
    ),
    "C18": dict(
        engine="E1 + E2 + E5 client threads",
        category="exploration",
        text="Three kinds of seeded case. sched: one workload (cx, sjoin, bounds/area/length, "
             "intersects_bounds, pack_partitions, pack_partitions_to_parquet, read_parquet_dask+cx) on the "
             "reference schedule and under K seeded schedules (1..16 workers; random / PCT / stalled; "
             "line-level pre-emption inside tasks in fine mode) - identical results and identical stored "
             "datasets required. clients: 2..6 logical client tasks share one cold geometry array / "
             "HilbertRtree / GeoDataFrame / DaskGeoDataFrame and issue read-only operations (incl. "
             "pickle.dumps) under line-level pre-emption decided by the seeded scheduler; each call must "
             "equal the result on a fresh single-threaded twin and none may raise; the clients also join "
             "shared frames (sjoin) and pack through one shared filesystem object (fsspec transactions "
             "modelled), and the shared objects must be unchanged afterwards. numba: thread-count "
             "sweep {1,2,4,16} of the prange/parallel kernels (incl. rings of 20k-70k vertices), labelled "
             "as a sweep, not a controlled schedule; each case measures that the sweep is effective.",
        design_ref="DESIGN.md 5/C18, 2.3, 2.7",
        note="pre-emption points are filesystem calls, task boundaries and spatialpandas source lines; "
             "races inside one numba kernel call or inside pyarrow/pandas C code are below every seam "
             "(sampled by the sweep only); the simulated executor stands in for dask.threaded",
        technique="deterministic simulation: baton-passing threads with seeded line-level pre-emption, "
                  "schedule sweep against a reference schedule",
    ),
    "C06": dict(
        engine="E2 dask-in-memory (+E3 parquet store for the parquet provenances)",
        category="exploration",
        text="Seeded histories of provenance steps (from_pandas with even/explicit/empty partitions, row "
             "filter, set_geometry, column selection, persist, build_sindex, pack_partitions, parquet round "
             "trip through to_parquet or pack_partitions_to_parquet re-read with/without geometry= and "
             "bounds=) with 3 queries after every step (cx, series cx, cx_partitions, bounds, total_bounds, "
             "area, length, intersects_bounds, sjoin inner/left), each graph executed by the simulated "
             "executor (1..16 workers, random/PCT/in-order/stalled). Oracle: the same operation on a fresh "
             "pandas frame rebuilt from the partitions' row records with the same active geometry; the "
             "partitions themselves are checked against the model's expected row multiset after every "
             "step. Sampling, not proof.",
        design_ref="DESIGN.md 5/C06",
        note="pandas-level cx/sjoin/bounds are the oracle the property names (their own correctness is "
             "C01-C05/C13, not claimed); known finding F06 (filter on a still-lazy shuffle) reported as "
             "KNOWN-FINDING; which partitions bounds= keeps is left to C12",
        technique="deterministic simulation of the Dask executor + refinement against the single-copy "
                  "pandas model over generated provenance histories",
    ),
    "C09": dict(
        engine="E2 dask-in-memory",
        category="exploration",
        text="The shuffle behind pack_partitions moves every row between partitions; the simulated "
             "executor decides worker count (1..16), task order and overlap (random / PCT / in-order / "
             "stalled workers). After each run: row-multiset conservation against the model, each row's "
             "index against the pandas-level Hilbert distance for the model's tight total bounds, order "
             "within and across partitions, partition count, and independence from a second input "
             "partitioning (explicit splits with empty partitions included). Sampling, not proof.",
        design_ref="DESIGN.md 5/C09",
        note="a call that raises claims nothing; known finding F05 (fewer partitions than requested when "
             "Dask's set_index delivers fewer) is reported as KNOWN-FINDING; trusted: dask graph "
             "construction, pandas, an independent Hilbert reference as oracle for the index",
        technique="deterministic simulation of the task schedule, conservation/ordering invariants "
                  "against a row-level model",
    ),
    "C19": dict(
        engine="E1 pack-to-storage",
        category="fault_enumeration",
        text="Per configuration (temp-dir mode x empty/non-empty outputs x atomic/progressive store x "
             "refresh kw x default/short retry budget x previous dataset) a fault-free baseline fixes the "
             "K fault points (every filesystem call, write and close). Every single fault (k, kind), kind "
             "in {EIO, FileNotFoundError (at every call), error-after-effect, torn write, ENOSPC, late "
             "visibility / late deletion in listings, one stale listing, a move copied but not deleted, "
             "crash} is generated (quick: 3 configurations, writes thinned to first/middle/last per "
             "file; thorough: 54, six of them with six sub-parts feeding one partition), together with "
             "repeated faults around the retry budget and path-addressed single faults under seeded "
             "multi-worker schedules; these enumerated layers are run in one seeded permutation "
             "stratified by (configuration, layer, kind), truncated by the budget (evidence reports how "
             "many of each layer ran and 'exhaustive': false unless all did), interleaved with sampled "
             "pairs/triples and sampled faults under multi-worker schedules. Oracle: completed => stored dataset equals the fault-free one; raised/crashed => "
             "a fault-free repeat with overwrite=True on the surviving tree equals it. Virtual time lets "
             "the library's default 24-attempt / 120 s back-off run unshortened.",
        design_ref="DESIGN.md 5/C19, 2.4",
        note="fault model is a modelling choice (DESIGN 2.4): only listings can be stale, point lookups "
             "see the real state; file reads are not faulted; executor drains in-flight tasks on error; "
             "trusted: pyarrow, pandas, dask graph construction, fsspec base, OS filesystem",
        technique="deterministic simulation with single-fault enumeration per configuration (run as a "
                  "seeded stratified permutation, budget-truncated) + sampled fault sequences, "
                  "crash/restart, virtual time",
    ),
    "C10": dict(
        engine="E1 pack-to-storage",
        category="exploration",
        text="Seeded search over frames x partitionings x npartitions x temp-dir modes x previous "
             "datasets, with the real pack_partitions_to_parquet running on simulated storage under a "
             "simulated Dask executor (1..16 workers, random/PCT/in-order interleaving at every "
             "filesystem call, permuted listings, atomic vs progressive writes). After each run the "
             "OS-level directory tree, every stored row, the Hilbert index/order and the returned and "
             "independently re-read frames are compared with a row-level model. Sampling, not proof.",
        design_ref="DESIGN.md 5/C10, 2.3, 2.4",
        note="trusted: CPython, pandas, pyarrow, dask graph construction, fsspec base class, OS "
             "filesystem under /dev/shm; the simulated executor and SimFS stand in for dask.threaded "
             "and a real object store; calls arriving from inside pyarrow C++ are atomic steps",
        technique="deterministic simulation (seeded scheduler + simulated storage), model-based oracle",
    ),
}


def main():
    checks = []
    for pid in sorted(CHECKS):
        c = CHECKS[pid]
        checks.append({
            "property_id": pid,
            "quick_cmd": f"./check {pid} --tier quick",
            "thorough_cmd": f"./check {pid} --tier thorough",
            "evidence_file": f"/verif/evidence/{pid}.json",
            "replay_cmd_template": f"./check {pid} --replay {{path}}",
            "engine": c["engine"],
            "level_claimed": {"category": c["category"], "text": c["text"],
                              "design_ref": c["design_ref"]},
            "level_note": c["note"],
            "technique": c["technique"],
        })
    props = [json.loads(l)["id"] for l in open(os.path.join(VERIF, "properties.jsonl"))]
    na = []
    for pid in props:
        if pid in CHECKS:
            continue
        na.append({"property_id": pid, "reason": NA.get(pid, PENDING)})
    man = {
        "version": 1,
        "setup_cmd": "/venv/bin/python -c \"import spatialpandas, dask, pyarrow, fsspec, retrying, "
                     "numba; import sys; sys.path.insert(0, '/verif'); import dsim.core, dsim.simfs\"",
        "hooks": {
            "guard": "SPATIALPANDAS_VERIF",
            "enable": "no hook in /repo is needed: every seam is an existing interface "
                      "(dask scheduler config, filesystem= arguments, fsspec registry) or a "
                      "monkeypatch of a dependency (retrying.time, uuid.uuid4) applied by the harness",
            "baseline_off_cmd": "/verif/tools/run_baseline.py",
            "source_commits": [],
            "add_only": True,
        },
        "engines": [
            {"name": "E1 pack-to-storage", "path": "dsim/e1.py",
             "serves_properties": ["C10", "C19", "C18"],
             "kind_free_text": "real pack_partitions_to_parquet on SimFS under the simulated Dask executor"},
            {"name": "E5 client threads", "path": "dsim/props/c18.py (+ dsim/core.py line pre-emption)",
             "serves_properties": ["C18"],
             "kind_free_text": "N logical client tasks on one shared cold object, seeded line-level "
                               "pre-emption via sys.settrace, compared with a single-threaded twin"},
            {"name": "E4 sequential histories", "path": "dsim/props/c04.py, c16.py, c20.py",
             "serves_properties": ["C04", "C16", "C20"],
             "kind_free_text": "seeded operation/derivation histories with pickle/parquet restart steps, "
                               "refined against list / reference-geometry / (columns, active) models"},
            {"name": "E3 parquet store", "path": "dsim/e3.py",
             "serves_properties": ["C11", "C12", "C06"],
             "kind_free_text": "parquet datasets as stored state on SimFS: write histories, reads in any "
                               "listing order, dataset model"},
            {"name": "E2 dask-in-memory", "path": "dsim/e2.py",
             "serves_properties": ["C06", "C09", "C18"],
             "kind_free_text": "Dask collections executed task by task by the simulated executor, "
                               "compared with the pandas frame they represent"},
        ],
        "checks": checks,
        "not_applicable": na,
        "notes": "Technique family: deterministic simulation with fault injection. See DESIGN.md. "
                 "Exit codes of ./check: 0 held, 1 VIOLATION, 2 harness error.",
    }
    path = os.path.join(VERIF, "MANIFEST.json")
    with open(path, "w") as f:
        json.dump(man, f, indent=1)
    try:
        import jsonschema
        jsonschema.validate(man, json.load(open("/root/.vp/MANIFEST.schema.json")))
        print("MANIFEST.json valid;", len(checks), "checks,", len(na), "not applicable")
    except ImportError:
        print("MANIFEST.json written (jsonschema not importable here)")


if __name__ == "__main__":
    main()
