#!/bin/sh
# confirm_mutant.sh <ID> <A|B> : independent confirmation in the scratch worktree /tmp/wt/<ID>
# (i) clean: demo exits 0  (ii) patched: demo exits non-zero  (iii) patched: pinned suite still passes
ID=$1; V=$2; W=/tmp/wt/$ID
cd $W || exit 2
git checkout -q -- spatialpandas
git apply --check patch$V.diff || { echo "RESULT $ID$V patch does not apply"; exit 1; }
PYTHONPATH=$W timeout 900 /venv/bin/python demo$V.py > /tmp/scratchpad/confirm-$ID$V-clean.log 2>&1; c=$?
git apply patch$V.diff
PYTHONPATH=$W timeout 900 /venv/bin/python demo$V.py > /tmp/scratchpad/confirm-$ID$V-patched.log 2>&1; p=$?
PYTHONPATH=$W timeout 2400 /venv/bin/python -m pytest -q -p no:cacheprovider --timeout=900 --ignore-glob='demo*.py' --ignore-glob='_probe*.py' --ignore-glob='scratch*' --ignore-glob='.scratch*' --junitxml=/tmp/scratchpad/confirm-$ID$V.xml > /tmp/scratchpad/confirm-$ID$V-suite.log 2>&1
s=$(/venv/bin/python - <<PY
import json, xml.etree.ElementTree as ET
base=json.load(open('/root/.vp/BASELINE.json'))
passed=set()
for tc in ET.parse('/tmp/scratchpad/confirm-$ID$V.xml').getroot().iter('testcase'):
    if not any(ch.tag in ('failure','error','skipped') for ch in tc):
        passed.add(f"{tc.get('classname')}::{tc.get('name')}")
missing=[t for t in base['stable_pass'] if t not in passed]
print(len(base['stable_pass'])-len(missing), len(missing))
PY
)
git apply -R patch$V.diff
git checkout -q -- spatialpandas
echo "RESULT $ID$V demo_clean_exit=$c demo_patched_exit=$p suite_pass_missing=$s"
