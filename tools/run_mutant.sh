#!/bin/sh
# run_mutant.sh <patch file> <PROP> [<PROP>...] : apply to /repo, run the quick checks, undo.
P=$1; shift
git -C /repo status --short | grep -q . && { echo "/repo not clean"; exit 2; }
git -C /repo apply "$P" || exit 2
for pid in "$@"; do
  out=$(cd /verif && timeout 1200 ./check $pid --tier quick 2>&1); rc=$?
  echo "MUTANT $(basename $(dirname $P))/$(basename $P) check=$pid exit=$rc"
  echo "$out" | grep -E "class=|VIOLATION|HARNESS|KNOWN" | cut -c1-260 | head -5
done
git -C /repo checkout -- .
find /verif/replays -name '*.json' -newer "$P" -delete 2>/dev/null
git -C /repo status --short
