#!/bin/sh
# soak.sh <tier> <seed>... : run every registered check for each seed, log one line per run
T=$1; shift
for s in "$@"; do
  for p in C04 C06 C09 C10 C11 C12 C16 C18 C19 C20; do
    out=$(cd /verif && VERIF_SEED=$s timeout 3000 ./check $p --tier $T 2>&1); rc=$?
    echo "SOAK tier=$T seed=$s check=$p exit=$rc $(echo "$out" | grep -E '^\[C..\] runs=' | cut -c1-120)"
    if [ $rc -ne 0 ]; then echo "$out" | grep -E "class=|VIOLATION|HARNESS|worker" | cut -c1-400 | head -8; fi
  done
done
