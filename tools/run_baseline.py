#!/venv/bin/python
"""Run the repository's pinned test suite with the verification guard OFF and compare
with /root/.vp/BASELINE.json: every stable_pass test must pass.  Exit 0 iff so."""
import json
import os
import subprocess
import sys
import tempfile
import xml.etree.ElementTree as ET

base = json.load(open("/root/.vp/BASELINE.json"))
env = {k: v for k, v in os.environ.items() if k != "SPATIALPANDAS_VERIF"}
with tempfile.TemporaryDirectory(prefix="spverif-baseline-", dir="/var/tmp") as d:
    xml = os.path.join(d, "junit.xml")
    cmd = base["cmd"].replace("<file>", xml)
    p = subprocess.run(cmd, shell=True, env=env, capture_output=True, text=True)
    passed = set()
    for tc in ET.parse(xml).getroot().iter("testcase"):
        if not any(ch.tag in ("failure", "error", "skipped") for ch in tc):
            passed.add(f"{tc.get('classname')}::{tc.get('name')}")
missing = [t for t in base["stable_pass"] if t not in passed]
print(f"baseline: {len(base['stable_pass']) - len(missing)}/{len(base['stable_pass'])} "
      f"stable tests pass; pytest exit={p.returncode}")
for t in missing[:20]:
    print("  NOT PASSING:", t)
sys.exit(1 if missing else 0)
