#!/bin/sh
# run_mutant_wt.sh <worktree> <patch file> <PROP>... : apply the patch INSIDE the scratch worktree
# and point the quick checks at it (VERIF_REPO); /repo is never touched.
W=$1; P=$2; shift; shift
git -C $W checkout -q -- spatialpandas && git -C $W apply "$P" || exit 2
for pid in "$@"; do
  out=$(cd /verif && VERIF_REPO=$W timeout 1200 ./check $pid --tier quick 2>&1); rc=$?
  echo "MUTANT $(basename $W)/$(basename $P) check=$pid exit=$rc"
  echo "$out" | grep -E "class=|VIOLATION|HARNESS|KNOWN" | cut -c1-260 | head -5
done
git -C $W checkout -q -- spatialpandas
