#!/bin/sh
# process_round.sh <suffix> <PROP>... : for each /tmp/wt/<PROP><suffix>, confirm changes A and B
# (clean demo / patched demo / pinned suite) and run the quick check of the property against
# each, inside the scratch worktree (VERIF_REPO).  One RESULT and one MUTANT line per change.
S=$1; shift
for p in "$@"; do
  w=/tmp/wt/$p$S
  [ -f $w/patchA.diff ] || { echo "SKIP $p$S (no deliverables)"; continue; }
  for v in A B; do
    /verif/tools/confirm_mutant.sh $p$S $v
    /verif/tools/run_mutant_wt.sh $w $w/patch$v.diff $p
  done
done
