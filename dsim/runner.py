"""Search driver: worker pool, minimisation, fresh-process replay, evidence, known findings.

A property module (dsim/props/cNN.py) provides
    PROP, LEVEL, RULE, ASSUMPTIONS, COMPONENTS
    cases(tier, base_seed)      -> iterator of JSON-serialisable cases (case['seed'] set)
    run_case(case)              -> result dict (see `result()` below)
    shrink_candidates(case)     -> iterator of smaller cases            (optional)
    warmup()                    -> run once per process before the first case
    sample(case, res)           -> short description for the evidence file (optional)
"""
from __future__ import annotations

import importlib
import json
import os
import random
import subprocess
import sys
import time

VERIF = os.path.dirname(os.path.dirname(os.path.abspath(__file__)))
PY = "/venv/bin/python"
EVIDENCE_DIR = os.path.join(VERIF, "evidence")
REPLAY_DIR = os.path.join(VERIF, "replays")
KNOWN = os.path.join(VERIF, "known_findings.json")

MASK = (1 << 64) - 1


def mix(base, i):
    """splitmix64 of (base, i): per-run seed."""
    z = (base * 0x9E3779B97F4A7C15 + (i + 1) * 0xBF58476D1CE4E5B9) & MASK
    z = ((z ^ (z >> 30)) * 0xBF58476D1CE4E5B9) & MASK
    z = ((z ^ (z >> 27)) * 0x94D049BB133111EB) & MASK
    return (z ^ (z >> 31)) & 0x7FFFFFFFFFFFFFFF


def load_prop(pid):
    return importlib.import_module(f"dsim.props.{pid.lower()}")


def result(ok, cls=None, msg=None, sig=None, digest=None, nontrivial=True, probes=None,
           faults=None, events=0, switches=0, sim_time=0.0, outcome="completed",
           tasks=0, extra=None):
    return {"ok": ok, "cls": cls, "msg": msg, "sig": sig or {}, "digest": digest,
            "nontrivial": nontrivial, "probes": probes or {}, "faults": faults or {},
            "events": events, "switches": switches, "sim_time": sim_time,
            "outcome": outcome, "tasks": tasks, "extra": extra or {}}


# ------------------------------------------------------------ known findings
def load_known():
    if not os.path.exists(KNOWN) or os.environ.get("VERIF_IGNORE_KNOWN"):
        return []      # VERIF_IGNORE_KNOWN=1: development aid, never set by registered commands
    with open(KNOWN) as f:
        return json.load(f).get("findings", [])


def match_known(pid, res, known):
    """The `known` entry (status == 'known') this violation is an instance of, or None."""
    for e in known:
        if e.get("status") != "known" or e.get("property") != pid:
            continue
        classes = e.get("classes") or [e.get("class")]
        prefixes = e.get("class_prefixes") or []
        if res["cls"] not in classes and not any(str(res["cls"]).startswith(p) for p in prefixes):
            continue
        sig = e.get("signature", {})
        if all(res["sig"].get(k) == v for k, v in sig.items()):
            return e
    return None


# ------------------------------------------------------------------- worker
def worker_main(argv):
    import argparse
    ap = argparse.ArgumentParser()
    ap.add_argument("prop")
    ap.add_argument("--tier", default="quick")
    ap.add_argument("--base-seed", type=int, default=0)
    ap.add_argument("--wid", type=int, default=0)
    ap.add_argument("--nworkers", type=int, default=1)
    ap.add_argument("--budget", type=float, default=30.0)
    ap.add_argument("--out", required=True)
    a = ap.parse_args(argv)

    import faulthandler
    faulthandler.enable()
    faulthandler.dump_traceback_later(a.budget * 3 + 240, exit=True)
    t_start = time.time()
    mod = load_prop(a.prop)
    from . import seams
    seams.pin_process()
    mod.warmup()
    warm_s = time.time() - t_start
    known = load_known()
    deadline = time.time() + a.budget
    agg = {"wid": a.wid, "evaluations": 0, "digests": [], "probes": {}, "faults": {},
           "outcomes": {}, "events": 0, "switches": 0, "sim_time": 0.0, "tasks": 0,
           "samples": [], "known_hits": {}, "violation": None, "harness_error": None,
           "warm_s": warm_s, "exhausted": False, "classes_seen": {}, "nondet": []}
    recheck = []
    out = open(a.out, "w")
    idx = -1
    try:
        for idx, case in enumerate(_with_regressions(a.prop, mod.cases(a.tier, a.base_seed),
                                                     a.nworkers)):
            if idx % a.nworkers != a.wid:
                continue
            if time.time() > deadline:
                break
            res = mod.run_case(case)
            _accumulate(agg, mod, case, res)
            if len(recheck) < 3 or agg["evaluations"] % 37 == 0:
                recheck.append((case, res["digest"], res["ok"]))
                recheck = recheck[-6:]
            if not res["ok"]:
                k = match_known(a.prop, res, known)
                if k is not None:
                    key = k["id"]
                    h = agg["known_hits"].setdefault(key, {"count": 0, "example": None})
                    h["count"] += 1
                    if h["example"] is None:
                        h["example"] = res["msg"]
                    continue
                best, bres = minimise(mod, case, res, known, a.prop,
                                      until=time.time() + max(20.0, a.budget * 0.5))
                path = write_replay(a.prop, best, bres, tag=f"w{a.wid}")
                agg["violation"] = {"replay": path, "cls": bres["cls"], "msg": bres["msg"],
                                    "sig": bres["sig"], "seed": best.get("seed")}
                break
        else:
            agg["exhausted"] = True
        agg["last_layer"] = case.get("layer") if idx >= 0 and isinstance(case, dict) else None
        # determinism spot check: same case, same process, same digest
        if agg["violation"] is None:
            for case, dig, ok in recheck[:4]:
                r2 = mod.run_case(case)
                if r2["digest"] != dig or r2["ok"] != ok:
                    agg["nondet"].append({"seed": case.get("seed"), "a": dig, "b": r2["digest"]})
            agg["rechecked"] = len(recheck[:4])
    except BaseException as e:  # noqa: BLE001
        import traceback
        agg["harness_error"] = f"{type(e).__name__}: {e}\n{traceback.format_exc()[-3000:]}"
    agg["wall_s"] = time.time() - t_start
    json.dump(agg, out, default=str)
    out.close()
    faulthandler.cancel_dump_traceback_later()
    _remove_process_scratch()
    # daemon sim threads may be parked after a harness error: leave hard
    sys.stdout.flush()
    os._exit(0)


def _remove_process_scratch():
    """os._exit skips atexit handlers: remove what this process keeps under the scratch base
    (per-run trees are removed by the runs; the C19 template datasets live as long as the
    worker)."""
    import glob
    import shutil

    from . import seams
    for d in glob.glob(os.path.join(seams.SCRATCH_BASE, f"spverif-tmpl-{os.getpid()}-*")) + \
            glob.glob(os.path.join(seams.SCRATCH_BASE, f"spverif-{os.getpid()}")):
        shutil.rmtree(d, ignore_errors=True)


def _with_regressions(pid, stream, nworkers):
    """Committed regression cases of earlier findings first (spread over the workers)."""
    import glob
    for path in sorted(glob.glob(os.path.join(VERIF, "findings", f"{pid}-*.json"))):
        with open(path) as f:
            case = json.load(f)["case"]
        case["_regression"] = os.path.basename(path)
        yield case
    yield from stream


def _accumulate(agg, mod, case, res):
    agg["evaluations"] += 1
    if case.get("_regression"):
        agg["probes"]["regression_cases_run"] = agg["probes"].get("regression_cases_run", 0) + 1
    if res["nontrivial"] and res["digest"]:
        agg["digests"].append(res["digest"])
    for k, v in res["probes"].items():
        agg["probes"][k] = agg["probes"].get(k, 0) + int(v)
    for k, v in res["faults"].items():
        agg["faults"][k] = agg["faults"].get(k, 0) + int(v)
    agg["outcomes"][res["outcome"]] = agg["outcomes"].get(res["outcome"], 0) + 1
    agg["events"] += res["events"]
    agg["switches"] += res["switches"]
    agg["sim_time"] += res["sim_time"]
    agg["tasks"] += res["tasks"]
    if not res["ok"]:
        agg["classes_seen"][res["cls"]] = agg["classes_seen"].get(res["cls"], 0) + 1
    if len(agg["samples"]) < 3 and res["nontrivial"]:
        s = mod.sample(case, res) if hasattr(mod, "sample") else {"seed": case.get("seed")}
        agg["samples"].append(s)


def minimise(mod, case, res, known, pid, until):
    """Greedy shrink: keep a candidate when it fails with the same class (and the same
    known/unknown status)."""
    if not hasattr(mod, "shrink_candidates"):
        return case, res
    best, bres = case, res
    improved = True
    rounds = 0
    while improved and time.time() < until and rounds < 200:
        improved = False
        rounds += 1
        for cand in mod.shrink_candidates(best):
            if time.time() > until:
                break
            try:
                r = mod.run_case(cand)
            except Exception:  # noqa: BLE001 - a malformed candidate is just skipped
                continue
            if (not r["ok"]) and r["cls"] == bres["cls"] and \
                    (match_known(pid, r, known) is None):
                best, bres = cand, r
                improved = True
                break
    return best, bres


def write_replay(pid, case, res, tag=""):
    os.makedirs(REPLAY_DIR, exist_ok=True)
    import re
    cls = re.sub(r"[^A-Za-z0-9_.-]+", "_", str(res["cls"]))
    name = f"{pid}-{case.get('seed', 0)}-{cls}{('-' + tag) if tag else ''}.json"
    path = os.path.join(REPLAY_DIR, name)
    with open(path, "w") as f:
        json.dump({"property": pid, "case": case, "expect": {"cls": res["cls"],
                   "sig": res["sig"], "digest": res["digest"]}, "msg": res["msg"]},
                  f, indent=1, default=str)
    return path


# ------------------------------------------------------------------- replay
def replay_main(pid, path):
    """Run a replay file in this (fresh) interpreter.  Exit 1 + VIOLATION when it
    reproduces, 0 when the case now passes."""
    with open(path) as f:
        rp = json.load(f)
    mod = load_prop(pid)
    from . import seams
    seams.pin_process()
    mod.warmup()
    res = mod.run_case(rp["case"])
    exp = rp.get("expect", {})
    if res["ok"]:
        print(f"replay {path}: property held (expected class {exp.get('cls')})")
        return 0
    same = res["cls"] == exp.get("cls")
    print(f"replay {path}: class={res['cls']} digest={res['digest']} "
          f"(expected class={exp.get('cls')} digest={exp.get('digest')})")
    print(res["msg"])
    k = match_known(pid, res, load_known())
    if k is not None:
        print(f"KNOWN-FINDING: property={pid} {k['id']}: {k['text']}")
        return 0
    print(f"VIOLATION property={pid} replay={path}")
    return 1 if same else 1


# ------------------------------------------------------------------- parent
TIERS = {"quick": {"budget": 40.0, "workers": 8}, "thorough": {"budget": 720.0, "workers": 16}}


def check_main(pid, tier, budget=None, workers=None, seed=None):
    t0 = time.time()
    mod = load_prop(pid)
    cfg = dict(TIERS[tier])
    cfg.update(getattr(mod, "TIER_OVERRIDES", {}).get(tier, {}))
    if budget is not None:
        cfg["budget"] = budget
    if workers is not None:
        cfg["workers"] = workers
    if seed is None:
        seed = int(os.environ.get("VERIF_SEED", "0") or 0)
    print(f"[{pid}] tier={tier} VERIF_SEED={seed} workers={cfg['workers']} "
          f"budget={cfg['budget']}s", flush=True)
    work = os.path.join(VERIF, ".work", f"{pid}-{os.getpid()}")
    os.makedirs(work, exist_ok=True)
    env = dict(os.environ, PYTHONHASHSEED="0", OMP_WAIT_POLICY="passive",
               PYTHONPATH=_pythonpath(), NUMBA_NUM_THREADS=os.environ.get("NUMBA_NUM_THREADS", "4"),
               PYTHONDONTWRITEBYTECODE="1")
    env.update(getattr(mod, "ENV", {}))
    procs = []
    for w in range(cfg["workers"]):
        outp = os.path.join(work, f"w{w}.json")
        errp = os.path.join(work, f"w{w}.err")
        cmd = [PY, "-m", "dsim.worker", pid, "--tier", tier, "--base-seed", str(seed),
               "--wid", str(w), "--nworkers", str(cfg["workers"]),
               "--budget", str(cfg["budget"]), "--out", outp]
        procs.append((w, outp, errp, subprocess.Popen(cmd, cwd=VERIF, env=env,
                                                      stdout=open(errp, "w"),
                                                      stderr=subprocess.STDOUT)))
    hard = cfg["budget"] * 3 + 300
    aggs, errors = [], []
    for w, outp, errp, p in procs:
        try:
            p.wait(timeout=max(10.0, hard - (time.time() - t0)))
        except subprocess.TimeoutExpired:
            p.kill()
            errors.append(f"worker {w}: wall timeout")
            continue
        try:
            with open(outp) as f:
                aggs.append(json.load(f))
        except Exception as e:  # noqa: BLE001
            tail = ""
            try:
                with open(errp) as f:
                    tail = f.read()[-2000:]
            except OSError:
                pass
            errors.append(f"worker {w}: no result ({e}); exit={p.returncode}; log tail:\n{tail}")
    for a in aggs:
        if a.get("harness_error"):
            errors.append(f"worker {a['wid']}: {a['harness_error']}")
        for nd in a.get("nondet", []):
            errors.append(f"worker {a['wid']}: non-deterministic run seed={nd['seed']} "
                          f"digest {nd['a']} != {nd['b']}")

    known = load_known()
    violations = [a["violation"] for a in aggs if a.get("violation")]
    confirmed = []
    for v in violations[:2]:
        rc, outtxt = _fresh_replay(pid, v["replay"], env)
        if rc == 1:
            confirmed.append(v)
        else:
            errors.append(f"violation did not replay in a fresh interpreter: {v['replay']} "
                          f"(rc={rc})\n{outtxt[-1500:]}")
    known_hits = {}
    for a in aggs:
        for k, h in a.get("known_hits", {}).items():
            kh = known_hits.setdefault(k, {"count": 0, "example": h["example"]})
            kh["count"] += h["count"]

    ev = _write_evidence(pid, tier, seed, mod, cfg, aggs, confirmed, known_hits, errors,
                         time.time() - t0)
    import shutil
    shutil.rmtree(work, ignore_errors=True)
    for k, h in sorted(known_hits.items()):
        e = next((x for x in known if x["id"] == k), {})
        print(f"KNOWN-FINDING: property={pid} {k}: {e.get('text', '')} "
              f"[{h['count']} runs, e.g. {str(h['example'])[:160]}]")
    print(f"[{pid}] runs={ev['coverage']['evaluations']} "
          f"distinct={ev['coverage']['distinct_nontrivial']} wall={ev['wall_s']:.1f}s "
          f"outcomes={ev['coverage'].get('outcomes')} faults={ev['coverage'].get('faults_fired')}")
    if confirmed:
        for v in confirmed:
            print(f"  class={v['cls']} sig={v['sig']}\n  {str(v['msg'])[:600]}")
            print(f"VIOLATION property={pid} replay={v['replay']}")
        return 1
    if errors:
        print("HARNESS ERROR:\n" + "\n".join(errors)[:6000])
        return 2
    if ev["coverage"]["evaluations"] == 0:
        print("HARNESS ERROR: no case was evaluated")
        return 2
    print(f"[{pid}] OK: property held on everything explored")
    return 0


def _pythonpath():
    r = os.environ.get("VERIF_REPO")
    return (os.path.realpath(r) + os.pathsep + VERIF) if r else VERIF


def _fresh_replay(pid, path, env):
    env = dict(env, PYTHONHASHSEED="1")       # another hash seed on purpose
    p = subprocess.run([PY, os.path.join(VERIF, "check"), pid, "--replay", path],
                       cwd=VERIF, env=env, capture_output=True, text=True, timeout=900)
    return p.returncode, p.stdout + p.stderr


def _write_evidence(pid, tier, seed, mod, cfg, aggs, confirmed, known_hits, errors, wall):
    os.makedirs(EVIDENCE_DIR, exist_ok=True)
    digests = set()
    for a in aggs:
        digests.update(a["digests"])
    tot = lambda k: sum(a.get(k, 0) for a in aggs)      # noqa: E731
    merged = lambda k: _merge([a.get(k, {}) for a in aggs])  # noqa: E731
    evals = tot("evaluations")
    samples = []
    for a in aggs:
        samples.extend(a.get("samples", [])[:1])
    samples = samples[:3] or [{"note": "no run completed"}]
    cov = {
        "evaluations": evals,
        "distinct_nontrivial": len(digests),
        "rule": mod.RULE,
        "samples": samples,
        "exhaustive": bool(getattr(mod, "EXHAUSTIVE", False)
                           and aggs and all(a.get("exhausted") for a in aggs)),
        "runs_per_hour": round(evals / max(wall, 1e-9) * 3600),
        "seeds": f"splitmix64(VERIF_SEED={seed}, run index 0..{max(evals - 1, 0)})",
        "simulated_seconds": round(tot("sim_time"), 3),
        "events": tot("events"),
        "context_switches": tot("switches"),
        "logical_tasks": tot("tasks"),
        "faults_fired": merged("faults"),
        "probes": merged("probes"),
        "outcomes": merged("outcomes"),
        "violation_classes_seen": merged("classes_seen"),
        "known_findings_hit": {k: h["count"] for k, h in known_hits.items()},
        "determinism_rechecks": sum(a.get("rechecked", 0) for a in aggs),
        "determinism_mismatches": sum(len(a.get("nondet", [])) for a in aggs),
        "workers": cfg["workers"],
        "workers_last_layer": sorted(str(a.get("last_layer")) for a in aggs),
        "budget_s": cfg["budget"],
        "warmup_s": round(max([a.get("warm_s", 0) for a in aggs] or [0]), 1),
        "components": getattr(mod, "COMPONENTS", {}),
        "harness_errors": errors[:5],
    }
    zero = [k for k in getattr(mod, "EXPECTED_PROBES", []) if not cov["probes"].get(k)]
    if zero:
        cov["probes_stuck_at_zero"] = zero
    ev = {"property_id": pid, "tier": tier, "seed": seed, "level": mod.LEVEL,
          "coverage": cov, "assumptions": list(mod.ASSUMPTIONS), "wall_s": round(wall, 2),
          "violations": len(confirmed)}
    with open(os.path.join(EVIDENCE_DIR, f"{pid}.json"), "w") as f:
        json.dump(ev, f, indent=1, default=str)
    return ev


def _merge(dicts):
    out = {}
    for d in dicts:
        for k, v in d.items():
            out[k] = out.get(k, 0) + v
    return out


def rng_for(case_seed, stream):
    return random.Random(f"{case_seed}:{stream}")
