"""Seams: everything nondeterministic that the library (or its dependencies) reads
is redirected to the simulator for the duration of one run."""
from __future__ import annotations

import contextlib
import gc
import os
import shutil
import types
import uuid as _uuid

SCRATCH_BASE = "/dev/shm" if os.path.isdir("/dev/shm") else "/var/tmp"
# The tree under test.  Always /repo for the registered commands; VERIF_REPO lets the
# mutation tooling point a check at a scratch worktree (tools/run_mutant_wt.sh) without
# touching /repo.
REPO_ROOT = os.path.realpath(os.environ.get("VERIF_REPO") or "/repo")
SP_DIR = REPO_ROOT + "/spatialpandas/"


def pin_process():
    """Process-wide pinning done once per worker, before the first run."""
    import pyarrow as pa
    pa.set_cpu_count(1)
    pa.set_io_thread_count(1)
    import spatialpandas  # noqa: F401
    p = os.path.realpath(spatialpandas.__file__)
    if not p.startswith(REPO_ROOT + "/"):
        raise RuntimeError(f"spatialpandas is imported from {p}, not from {REPO_ROOT}")
    from .simfs import register
    register()
    _init_numba_threads()


_PSUM = []


def _init_numba_threads():
    """Start numba's threading layer from the MAIN thread.  If the first parallel kernel of
    the process runs in another thread (a logical task of the simulator), every later
    parallel kernel called from the main thread runs single-threaded whatever
    numba.set_num_threads says (observed with the omp layer) - the thread-count sweep of C18
    would then compare one configuration with itself."""
    import numba
    import numpy as np

    @numba.njit(parallel=True)
    def psum(a):
        s = 0.0
        for i in numba.prange(a.shape[0]):
            s += a[i]
        return s
    psum(np.arange(1000.0))
    _PSUM.append(psum)


def numba_sweep_effective():
    """True if numba.set_num_threads changes how a parallel reduction is split in this
    process (a float sum over non-representable terms differs between 1 and all threads)."""
    import numba
    import numpy as np
    a = np.sin(np.arange(200000.0)) * 0.1
    prev = numba.get_num_threads()
    try:
        numba.set_num_threads(1)
        r1 = _PSUM[0](a)
        numba.set_num_threads(numba.config.NUMBA_NUM_THREADS)
        rn = _PSUM[0](a)
    finally:
        numba.set_num_threads(prev)
    return numba.config.NUMBA_NUM_THREADS > 1 and r1 != rn


class _SimTime(types.SimpleNamespace):
    pass


def _clear_dask_caches():
    """Module-global LRUs of dask-expr (computed set_index divisions, memory usages) are
    keyed by expression *names*: they survive a run and would make the next run of the same
    case skip a computation (another event log) or reuse divisions of another frame."""
    try:
        from dask.dataframe.dask_expr import _repartition, _shuffle
        _shuffle.divisions_lru.clear()
        _repartition.mem_usages_lru.clear()
    except Exception as e:  # noqa: BLE001
        raise RuntimeError(f"cannot clear dask-expr caches: {e}") from e


class _SerialScan:
    """Proxy for the pyarrow dataset behind a ParquetDataset: a multi-file read opens its
    fragments one after the other instead of four at a time on two threads.  Arrow's fragment
    read-ahead runs the calling thread and its I/O thread side by side - a scheduler inside a
    dependency that the simulator does not decide - so the order of storage requests, and
    which of them are still issued after a failure, would differ from run to run."""

    def __init__(self, d):
        self._d = d

    def __getattr__(self, name):
        return getattr(self._d, name)

    def to_table(self, **kw):
        kw["use_threads"] = False
        kw["fragment_readahead"] = 1
        return self._d.to_table(**kw)


def _serial_parquet_read(real_read):
    def read(self, *a, **k):
        real = self._dataset
        self._dataset = _SerialScan(real)
        try:
            return real_read(self, *a, **k)
        finally:
            self._dataset = real
    return read


def _sp_module_state():
    """Process-global mutable state of the code under test: module-level dict / list / set
    objects and functools caches of every loaded spatialpandas module.  One run is one fresh
    system: whatever a run leaves there (a cache a change introduces, say) is put back to its
    pre-run content afterwards, so that a later run in the same worker process does not
    depend on the runs before it - the same seed gives the same execution wherever it runs."""
    import sys
    snap = []
    for name, mod in sorted(sys.modules.items()):
        if not (name == "spatialpandas" or name.startswith("spatialpandas.")) or mod is None:
            continue
        if ".tests" in name:
            continue
        for attr, val in sorted(vars(mod).items()):
            if attr.startswith("__"):
                continue
            if type(val) in (dict, list, set):
                snap.append((val, type(val)(val)))
            elif val is None or type(val) in (tuple, int, float, str, bool, bytes, frozenset):
                snap.append(((mod, attr), ("rebind", val)))   # a global that code may rebind
            elif hasattr(val, "cache_clear") and callable(getattr(val, "cache_clear", None)) \
                    and getattr(val, "__module__", "") == name:
                snap.append((val, None))
    return snap


def _restore_sp_module_state(snap):
    for obj, saved in snap:
        if isinstance(saved, tuple) and len(saved) == 2 and saved[0] == "rebind":
            mod, attr = obj
            if getattr(mod, attr, saved) is not saved[1]:
                setattr(mod, attr, saved[1])
        elif saved is None:
            obj.cache_clear()
        elif isinstance(obj, list):
            obj[:] = saved
        else:
            obj.clear()
            obj.update(saved)


@contextlib.contextmanager
def installed(sim, store=None, scheduler=True):
    """Patch clock, sleep, uuid4, the Dask scheduler and the simfs:// registry."""
    import dask
    import retrying

    from . import simfs

    # dask-expr keeps a WeakValueDictionary of expressions by name: garbage of an earlier
    # run with the same seeded uuids must be gone before this run starts
    _clear_dask_caches()
    gc.collect()
    gc_was_enabled = gc.isenabled()
    gc.disable()        # finaliser timing must not depend on allocation counts
    real_time_mod = retrying.time
    real_uuid4 = _uuid.uuid4
    fake = _SimTime(time=lambda: sim.now, sleep=lambda s: sim.sleep(float(s)),
                    monotonic=lambda: sim.now)

    def seeded_uuid4():
        return _uuid.UUID(int=sim.rng.getrandbits(128), version=4)

    real_should_reject = retrying.Retrying.should_reject

    def observing_should_reject(self, attempt):
        # observation only: which exception made `retrying` go round again
        if attempt.has_exception:
            e = attempt.value[1]
            msg = str(e)
            tag = ("not-yet-consistent" if "not yet consistent" in msg else
                   "deletion-not-complete" if "not yet complete" in msg else "")
            sim.event("retry-exc", (type(e).__name__, tag, attempt.attempt_number))
            sim.count("retry_exc")
            if tag:
                sim.count(tag)
        return real_should_reject(self, attempt)

    import pyarrow.parquet as pq
    real_pq_read = pq.ParquetDataset.read
    pq.ParquetDataset.read = _serial_parquet_read(real_pq_read)
    retrying.Retrying.should_reject = observing_should_reject
    retrying.time = fake
    _uuid.uuid4 = seeded_uuid4
    prev_store = simfs.SimFS.CURRENT
    simfs.SimFS.CURRENT = store
    cfg = dask.config.set(scheduler=sim.dask_get) if scheduler else contextlib.nullcontext()
    sp_state = _sp_module_state()
    try:
        with cfg:
            yield
    finally:
        _restore_sp_module_state(sp_state)
        retrying.time = real_time_mod
        retrying.Retrying.should_reject = real_should_reject
        pq.ParquetDataset.read = real_pq_read
        _uuid.uuid4 = real_uuid4
        simfs.SimFS.CURRENT = prev_store
        gc.collect()
        if gc_was_enabled:
            gc.enable()


@contextlib.contextmanager
def scratch(tag):
    """A per-run scratch root under tmpfs, removed afterwards."""
    base = os.path.join(SCRATCH_BASE, f"spverif-{os.getpid()}")
    os.makedirs(base, exist_ok=True)
    root = os.path.join(base, tag)
    shutil.rmtree(root, ignore_errors=True)
    os.makedirs(root)
    try:
        yield root
    finally:
        shutil.rmtree(root, ignore_errors=True)
        with contextlib.suppress(OSError):
            os.rmdir(base)
