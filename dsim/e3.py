"""Engine E3: parquet datasets as stored state on SimFS - written by one call, read by
another, listed in any order, by any task schedule.  Shared by C11 and C12."""
from __future__ import annotations

import os

import pandas as pd

from . import e1, gen, models

INDEX_KINDS = ("default", "named", "named_range", "unnamed", "nonunique", "hilbert")


def gen_index(rng, n, kind):
    if kind == "default":
        return {"kind": "default"}
    if kind == "named":
        v = list(range(10, 10 + n))
        rng.shuffle(v)
        return {"kind": "named", "name": "rid", "values": v}
    if kind == "named_range":
        # the values of a default index, but carrying a name
        return {"kind": "named_range", "name": "rid", "values": list(range(n))}
    if kind == "unnamed":
        v = list(range(50, 50 + n))
        rng.shuffle(v)
        return {"kind": "unnamed", "name": None, "values": v}
    if kind == "nonunique":
        return {"kind": "nonunique", "name": "grp",
                "values": [rng.randint(0, max(1, n // 2)) for _ in range(n)]}
    if kind == "hilbert":
        return {"kind": "hilbert", "name": "hilbert_distance",
                "values": sorted(rng.randint(0, 1000) for _ in range(n))}
    raise ValueError(kind)


def gen_store_frame(rng, n, subtypes=None, kinds=None):
    """A frame spec whose geometry columns have arbitrary subtypes and backings."""
    ngeo = rng.choice((1, 1, 2, 3))
    kinds = kinds or [rng.choice(models.KINDS) for _ in range(ngeo)]
    spec = gen.gen_frame_spec(rng, n, kinds=kinds, index_kind="default")
    for c in spec["cols"]:
        st = rng.choice(subtypes or gen.SUBTYPES)
        c["subtype"] = st
        c["values"] = gen.gen_values(rng, c["kind"], n, 0.15, 0.1, st)
        c["backing"] = rng.choice(("plain", "plain", "sliced", "concat"))
    spec["index"] = gen_index(rng, n, rng.choice(INDEX_KINDS))
    if spec["index"]["kind"] != "hilbert" and rng.random() < 0.15:
        # an ORDINARY column that happens to be called like the index of packed frames
        spec["extra"]["hilbert_distance"] = [rng.randint(0, 999) for _ in range(n)]
        spec["order"].insert(rng.randrange(len(spec["order"]) + 1), "hilbert_distance")
    return spec


def build_store_frame(spec, rows=None):
    """Like gen.build_frame, but honours 'backing': sliced (non-zero offset) or
    concatenated backing arrays hold exactly the same elements."""
    from spatialpandas import GeoDataFrame
    n = spec["n"]
    sel = list(range(n)) if rows is None else list(rows)
    bycol = {c["name"]: c for c in spec["cols"]}
    data = {}
    for name in spec["order"]:
        if name in bycol:
            c = bycol[name]
            vals = [c["values"][i] for i in sel]
            backing = c.get("backing", "plain")
            if backing == "sliced" and vals:
                pad = [v for v in vals if v is not None][:1] or [None]
                arr = gen.build_array(c["kind"], pad + vals + pad, c["subtype"])[1:-1]
            elif backing == "concat" and len(vals) >= 2:
                h = len(vals) // 2
                a = gen.build_array(c["kind"], vals[:h], c["subtype"])
                b = gen.build_array(c["kind"], vals[h:], c["subtype"])
                arr = type(a)._concat_same_type([a, b])
            else:
                arr = gen.build_array(c["kind"], vals, c["subtype"])
            data[name] = arr
        else:
            data[name] = [spec["extra"][name][i] for i in sel]
    ix = spec["index"]
    if ix["kind"] == "default":
        index = pd.RangeIndex(len(sel)) if rows is None else pd.Index(sel)
    else:
        index = pd.Index([ix["values"][i] for i in sel], name=ix.get("name"))
    return GeoDataFrame(data, index=index, geometry=spec["active"])


def expected_rows(spec, rows=None, cols=None):
    """[(index value, record)] in order, for comparison with a frame that was read back."""
    n = spec["n"]
    sel = list(range(n)) if rows is None else list(rows)
    recs = gen.spec_records(spec, rows=sel, with_index=False, cols=cols)
    ix = spec["index"]
    if ix["kind"] == "default":
        idx = list(range(len(sel))) if rows is None else sel
    else:
        idx = [ix["values"][i] for i in sel]
    return [(models.cell(i), r) for i, r in zip(idx, recs)]


def frame_rows(df):
    return [(models.cell(i), r) for i, r in zip(df.index.tolist(),
                                                models.frame_records(df, with_index=False))]


def geometry_types(df):
    from spatialpandas.geometry import GeometryDtype
    out = {}
    for c in df.columns:
        if isinstance(df[c].dtype, GeometryDtype):
            out[c] = (models.kind_of(df[c].array), df[c].array.numpy_dtype.name)
    return out


def part_files(path):
    """Part files of a dataset directory in natural (numeric) order, read from the OS."""
    import re
    names = [n for n in os.listdir(path) if n.endswith(".parquet")]

    def key(n):
        return [int(t) if t.isdigit() else t for t in re.split(r"(\d+)", n)]
    return [os.path.join(path, n) for n in sorted(names, key=key)]


def read_part(path):
    from fsspec.implementations.local import LocalFileSystem

    from spatialpandas.io import read_parquet
    return read_parquet(path, filesystem=LocalFileSystem())


make_ddf = e1.make_ddf
