"""Engine E1: pack_partitions_to_parquet on simulated storage under the simulated
Dask executor.  Shared by C10 (fault-free), C19 (faults) and C18 (many schedules)."""
from __future__ import annotations

import json
import math
import os
import re

from . import gen, models, seams, simfs
from .core import HarnessError, Sim, SimCrash

TEMP_MODES = ("inside", "ext_uuid", "ext_plain")
# ... plus a scratch directory NEXT to the dataset whose path starts with the dataset's path
# string (<path>.tmp/...): outside the dataset, although a prefix test says otherwise
TEMP_MODES_ALL = TEMP_MODES + ("ext_sibling",)


# ------------------------------------------------------------------ generation
def gen_sim_cfg(rng, fine=False):
    strategy = rng.choice(("random", "random", "random", "pct", "inorder"))
    return {"workers": rng.choice((1, 2, 2, 3, 4, 4, 8, 16)),
            "strategy": strategy,
            "switch_p": rng.choice((0.05, 0.3, 0.7)),
            "stall": rng.random() < 0.2,
            # 'fine': line-level pre-emption inside tasks (spatialpandas source lines)
            "fine": rng.random() < 0.15, "line_p": rng.choice((0.02, 0.1, 0.3))}


def gen_store_cfg(rng):
    return {"atomic_close": rng.random() < 0.5, "refresh": rng.random() < 0.5,
            "shuffle_ls": rng.random() < 0.8,
            "latency": rng.choice((0.001, 0.005, 0.05, 1.0))}


def gen_pack_case(rng, tier="quick", small=False):
    nrows = rng.choice((1, 2, 3, 5, 8, 12, 20, 30, 40)) if not small else rng.choice((3, 5, 8))
    kinds = None
    frame = gen.gen_frame_spec(rng, nrows, kinds=kinds, index_kind=rng.choice(
        ("default", "named", "nonunique")))
    if rng.random() < 0.12:
        gen.loosen_rings(frame, rng)            # unvalidated polygons: a ring outside the first
    if rng.random() < 0.1:
        gen.make_collinear(frame, rng)          # total extent degenerate in one axis only
    if rng.random() < 0.15:
        gen.shift_spec(frame, rng.choice((-8.0, -20.0, 500000.0)))   # negative / far coordinates
    k_in = rng.randint(1, min(6, max(1, nrows)))
    if rng.random() < 0.3:
        parts = {"mode": "splits", "splits": gen.gen_splits(rng, nrows, k_in)}
    else:
        parts = {"mode": "even", "k": k_in}
    presorted = None
    if nrows >= 12 and rng.random() < 0.12:
        presorted = rng.choice((11, 12))
    case = {
        "frame": frame,
        "parts": parts,
        "npartitions": rng.choice((1, 2, 3, 4, 5, 7, 8, 11, 12, 16)),
        "p": rng.choice((1, 2, 4, 6, 10, 15, 20)),
        "tempdir": rng.choice(TEMP_MODES_ALL),
        "compression": rng.choice(("snappy", "gzip", None)),
        "prev": None,
        "sim": gen_sim_cfg(rng),
        "store": gen_store_cfg(rng),
    }
    if presorted:
        # input that is already in curve order, in 11 or 12 partitions (sub-part names part10,
        # part11 sort before part2 as strings)
        d = expected_distances(frame, case["p"])
        if d is not None:
            order = sorted(range(nrows), key=lambda i: (models.cell(d[i]), i))
            cuts = sorted(rng.sample(range(1, nrows), presorted - 1))
            edges = [0] + cuts + [nrows]
            case["parts"] = {"mode": "splits", "presorted": True,
                             "splits": [order[a:b] for a, b in zip(edges, edges[1:])]}
    if rng.random() < 0.15:
        # the frame that is packed was itself read back from a packed dataset (another p,
        # another partition count): its index is already called hilbert_distance
        case["repack"] = {"npartitions": rng.choice((1, 2, 4, 9)), "p": rng.choice((1, 3, 12)),
                          "tempdir": rng.choice(TEMP_MODES)}
    if rng.random() < 0.3:
        pn = rng.choice((2, 6, 15))
        case["prev"] = {"frame": gen.gen_frame_spec(rng, pn, n_geo=1, index_kind="default"),
                        "npartitions": rng.choice((1, 3, 9, 13)),
                        "tempdir": rng.choice(TEMP_MODES)}
    return case


# ------------------------------------------------------------------ execution
def make_ddf(gdf, parts, tag="in"):
    import dask
    import dask.dataframe as dd
    if parts["mode"] == "even":
        return dd.from_pandas(gdf, npartitions=parts["k"], sort=False)
    if parts["mode"] == "repartition":
        # partitions produced by Dask itself (concat / split of the original chunks)
        return dd.from_pandas(gdf, npartitions=parts["k"], sort=False).repartition(
            npartitions=parts["to"])
    if parts["mode"] == "concat_empty":
        ddf = dd.from_pandas(gdf, npartitions=parts["k"], sort=False)
        return dd.concat([ddf, dd.from_pandas(gdf.iloc[:0], npartitions=1, sort=False)])
    import uuid
    frames = [gdf.iloc[s] for s in parts["splits"]]
    # names must be unique per object: dask-expr deduplicates expressions by name.
    # uuid4 is the run's seeded generator, so the same case gives the same names again
    run = uuid.uuid4().hex[:12]
    # ... and unique per CONTENT: runs that share a sim seed (the C19 enumeration) draw the
    # same uuids for different frames, and an expression of an earlier (crashed) run that
    # is still referenced somewhere would be handed out again for the same name
    import hashlib
    what = hashlib.sha1(repr((models.frame_records(gdf), parts["splits"])).encode()).hexdigest()[:10]
    run = f"{run}-{what}"
    ds = [dask.delayed(f, name=f"{tag}-{run}-part-{i}") for i, f in enumerate(frames)]
    return dd.from_delayed(ds, meta=gdf.iloc[:0], verify_meta=False)


def tempdir_format(root, mode):
    if mode == "inside":
        return None
    if mode == "ext_sibling":
        os.makedirs(os.path.join(root, "ds.tmp"), exist_ok=True)
        return os.path.join(root, "ds.tmp", "t-{uuid}-{partition}")
    os.makedirs(os.path.join(root, "tmp"), exist_ok=True)
    if mode == "ext_uuid":
        return os.path.join(root, "tmp", "t-{uuid}-{partition}")
    return os.path.join(root, "tmp", "t-{partition}")


def new_store(sim, root, cfg, plan=None, repeat=None):
    st = simfs.Store(sim, root, plan=plan, repeat=repeat,
                     atomic_close=cfg.get("atomic_close", False),
                     latency=cfg.get("latency", 0.005),
                     shuffle_ls=cfg.get("shuffle_ls", True))
    cls = simfs.SimFSRefresh if cfg.get("refresh") else simfs.SimFS
    return st, cls(st)


def new_sim(seed, cfg, **kw):
    if cfg.get("fine") and "trace_files" not in kw:
        kw = dict(kw, trace_files=(seams.SP_DIR,), line_p=cfg.get("line_p", 0.05))
    return Sim(seed, workers=cfg.get("workers", 4), strategy=cfg.get("strategy", "random"),
               switch_p=cfg.get("switch_p", 0.3),
               stall_p=0.1 if cfg.get("stall") else 0.0, **kw)


def do_pack(fs, root, gdf, parts, npartitions, p, tempdir, compression, overwrite,
            retry_args=None, tag="in", compute=True, ddf=None, name="ds", lazy=False):
    """One real pack_partitions_to_parquet call; returns (returned records, npartitions).
    `ddf`: pack this Dask frame instead of building one from `gdf`; `lazy`: return the
    DaskGeoDataFrame itself."""
    if ddf is None:
        ddf = make_ddf(gdf, parts, tag)
    out = ddf.pack_partitions_to_parquet(
        os.path.join(root, name), filesystem=fs, npartitions=npartitions, p=p,
        compression=compression, tempdir_format=tempdir_format(root, tempdir),
        overwrite=overwrite, _retry_args=retry_args)
    if lazy:
        return out, out.npartitions
    if not compute:
        return None, out.npartitions
    res = out.compute()
    return res, out.npartitions


# ------------------------------------------------------------------ inspection
PART_RE = re.compile(r"^part\.(\d+)\.parquet$")


def inspect_tree(root, name="ds"):
    """The directory tree as the OS sees it (not through SimFS)."""
    ds = os.path.join(root, name)
    out = {"ds_exists": os.path.isdir(ds), "files": [], "dirs": [], "tmp": [], "other": []}
    if out["ds_exists"]:
        for name in sorted(os.listdir(ds)):
            full = os.path.join(ds, name)
            (out["dirs"] if os.path.isdir(full) else out["files"]).append(name)
    for tname in ("tmp", "ds.tmp"):
        tmp = os.path.join(root, tname)
        if os.path.isdir(tmp):
            out["tmp"] = sorted(out["tmp"] + os.listdir(tmp))
    out["other"] = sorted(n for n in os.listdir(root)
                          if n not in ("ds", "tmp", "ds.tmp", "ds_src"))
    return out


def read_dataset(root, name="ds"):
    """Logical content of the stored dataset, read with a plain local filesystem."""
    import pyarrow.parquet as pq
    from fsspec.implementations.local import LocalFileSystem

    from spatialpandas.io import read_parquet
    ds = os.path.join(root, name)
    lfs = LocalFileSystem()
    tree = inspect_tree(root, name)
    parts = {}
    for name in tree["files"]:
        m = PART_RE.match(name)
        if m:
            df = read_parquet(os.path.join(ds, name), filesystem=lfs)
            parts[int(m.group(1))] = {
                "records": models.frame_records(df, with_index=False),
                "index": [models.cell(v) for v in df.index.tolist()],
                "index_name": df.index.name,
                "columns": list(df.columns),
            }
    meta = {}
    cm = os.path.join(ds, "_common_metadata")
    if os.path.isfile(cm):
        md = pq.read_metadata(cm).metadata or {}
        if b"spatialpandas" in md:
            meta["spatial"] = json.loads(md[b"spatialpandas"].decode())
    m = os.path.join(ds, "_metadata")
    if os.path.isfile(m):
        fm = pq.read_metadata(m)
        meta["row_groups"] = fm.num_row_groups
        meta["rows"] = fm.num_rows
    return {"tree": tree, "parts": parts, "meta": meta}


def dataset_fingerprint(ds):
    """Canonical, comparable form of read_dataset() output."""
    return json.dumps({
        "files": ds["tree"]["files"], "dirs": ds["tree"]["dirs"], "tmp": ds["tree"]["tmp"],
        "parts": {str(k): [sorted(map(repr, v["records"])), v["index"]]
                  for k, v in sorted(ds["parts"].items())},
        "meta": ds["meta"]}, sort_keys=True, default=str)


# --------------------------------------------------------------------- oracle
def expected_distances(spec, p):
    """Hilbert distance per row of the active geometry against the tight total bounds of
    the whole frame, by the independent reference of models.hilbert_reference (classical
    curve + the same float64 scaling; it agreed with the library on 43 530 generated
    elements of all kinds on the unchanged tree)."""
    c = gen.col_of(spec, spec["active"])
    tb = models.tight_total_bounds(c["kind"], c["values"])
    if any(math.isnan(b) for b in tb):
        return None
    return models.hilbert_reference(c["kind"], c["values"], tb, p)


def check_layout(ds, nrows_expected):
    """C10 layout clauses.  Returns (cls, msg) or None."""
    t = ds["tree"]
    if not t["ds_exists"]:
        return ("no-dataset", "dataset directory does not exist")
    if t["dirs"]:
        return ("layout-directory-inside", f"directories inside the dataset: {t['dirs']}")
    if t["tmp"]:
        return ("leftover-temp", f"temporary entries left outside the dataset: {t['tmp']}")
    if t["other"]:
        return ("leftover-temp", f"unexpected entries next to the dataset: {t['other']}")
    nums = sorted(ds["parts"])
    extra = [f for f in t["files"] if not PART_RE.match(f)
             and f not in ("_metadata", "_common_metadata")]
    if extra:
        return ("layout-extra-entry", f"unexpected files in the dataset: {extra}")
    for f in ("_metadata", "_common_metadata"):
        if f not in t["files"]:
            return ("layout-missing-metadata", f"{f} is missing")
    if nums != list(range(len(nums))):
        return ("layout-numbering", f"part numbers are not contiguous from 0: {nums}")
    if not nums:
        return ("layout-numbering", "no part file")
    empties = [k for k in nums if not ds["parts"][k]["records"]]
    if empties and nrows_expected > 0:
        return ("layout-empty-part", f"empty part files: {empties}")
    return None


def check_rows(ds, spec, p, what="stored dataset"):
    """Row conservation + Hilbert index + ordering of the stored parts."""
    from collections import Counter
    cols = ds["parts"][0]["columns"] if ds["parts"] else spec["order"]
    want = Counter(gen.spec_records(spec, with_index=False, cols=cols))
    got = Counter()
    for k in sorted(ds["parts"]):
        got.update(ds["parts"][k]["records"])
    if got != want:
        missing = list((want - got).elements())[:3]
        extra = list((got - want).elements())[:3]
        return ("rows-mismatch", f"{what}: {sum(got.values())} rows for {sum(want.values())} "
                f"input rows; missing={missing} extra={extra}")
    # index = hilbert distance of the row's active geometry
    exp = expected_distances(spec, p)
    if exp is not None:
        gi = cols.index(spec["active"])
        by_geom = {}
        for rec, d in zip(gen.spec_records(spec, with_index=False, cols=cols), exp):
            by_geom.setdefault((rec), set()).add(float(d))
        for k in sorted(ds["parts"]):
            part = ds["parts"][k]
            if part["index_name"] != "hilbert_distance":
                return ("index-name", f"{what}: part {k} index is named {part['index_name']!r}")
            for rec, d in zip(part["records"], part["index"]):
                if d not in by_geom.get(rec, ()):
                    return ("index-mismatch", f"{what}: part {k} row {rec[gi]!r} has index {d}, "
                            f"expected one of {sorted(by_geom.get(rec, []))}")
    last = None
    for k in sorted(ds["parts"]):
        idx = ds["parts"][k]["index"]
        if idx != sorted(idx):
            return ("order", f"{what}: part {k} is not sorted by hilbert distance: {idx}")
        if idx and last is not None and idx[0] < last:
            return ("order", f"{what}: part {k} starts at {idx[0]} below previous end {last}")
        if idx:
            last = idx[-1]
    return None


def check_returned(res_df, nparts, ds, spec, what="returned frame"):
    from collections import Counter
    cols = list(res_df.columns)
    want = Counter(gen.spec_records(spec, with_index=False, cols=cols))
    got = Counter(models.frame_records(res_df, with_index=False))
    if got != want:
        missing = list((want - got).elements())[:3]
        extra = list((got - want).elements())[:3]
        return ("returned-rows-mismatch", f"{what}: {sum(got.values())} rows for "
                f"{sum(want.values())} input rows; missing={missing} extra={extra}")
    if nparts != len(ds["parts"]):
        return ("returned-npartitions", f"{what} has {nparts} partitions, dataset has "
                f"{len(ds['parts'])} part files")
    idx = [models.cell(v) for v in res_df.index.tolist()]
    if idx != sorted(idx):
        return ("returned-order", f"{what} is not in hilbert order: {idx}")
    return None


def empty_outputs_expected(case_npartitions, ds):
    return case_npartitions > len(ds["parts"])


def sim_stats(sim, store=None):
    return {"events": sim.n_events, "switches": sim.switches, "sim_time": sim.now,
            "tasks": len(sim.tasks),
            "faults": dict(store.fired) if store is not None else {}}


def classify_exc(e):
    if isinstance(e, HarnessError):
        raise e
    if isinstance(e, SimCrash):
        return "crashed"
    return "raised"
