"""Deterministic simulator core.

One `Sim` = one run.  Everything that can vary between two executions of the
same workload is decided here, from one `random.Random`:

* logical tasks are real threads that only run while they hold the baton;
  they give it up at *yield points* (`Sim.point`, `Sim.sleep`, `Sim.wait_for`);
* `Sim.dask_get` is a Dask scheduler (``dask.config.set(scheduler=sim.dask_get)``)
  which runs every graph node as a logical task, at most `workers` at a time,
  released in PRNG order over graph insertion index;
* virtual clock: `now` only moves when nothing is runnable (discrete events);
* optional line-level pre-emption of code in selected source files
  (`trace_files`) through ``sys.settrace``.

The event log (`Sim.log`) is the schedule trace; `Sim.digest()` hashes it.
Logging never draws from the PRNG and never reads a real clock.
"""
from __future__ import annotations

import hashlib
import random
import sys
import re
import threading
from collections.abc import Mapping

READY, BLOCKED, DONE = "ready", "blocked", "done"


class HarnessError(Exception):
    """The simulator itself failed (deadlock, cap, non-determinism): exit 2."""


class SimDeadlock(HarnessError):
    pass


class StepCap(HarnessError):
    pass


class SimCrash(BaseException):
    """Injected process crash.  BaseException: passes through `retrying`."""


class LTask:
    __slots__ = ("id", "name", "fn", "state", "wake_at", "cond", "result", "exc",
                 "sem", "thread", "prio", "parent", "stall")

    def __init__(self, id, name, fn, parent):
        self.id = id
        self.name = name
        self.fn = fn
        self.state = READY
        self.wake_at = 0.0
        self.cond = None
        self.result = None
        self.exc = None
        self.sem = threading.Semaphore(0)
        self.thread = None
        self.prio = 0.0
        self.parent = parent
        self.stall = 1.0


class Sim:
    def __init__(self, seed, *, workers=4, strategy="random", switch_p=0.3,
                 max_events=60000, max_time=4 * 3600.0, trace_files=None,
                 line_p=0.0, pct_changes=3, drain_on_error=True, stall_p=0.0,
                 line_cost=0.005):
        self.seed = seed
        self.rng = random.Random(seed)
        self.workers = workers
        self.strategy = strategy          # 'random' | 'pct' | 'inorder'
        self.switch_p = switch_p
        # line-level pre-emption logs one event per pre-empted line: allow more of them
        self.max_events = max_events * (10 if (trace_files and line_p > 0) else 1)
        # each pre-empted line may be charged virtual time: the clock cap must not fire first
        self.max_time = max_time * (1000 if (trace_files and line_p > 0) else 1)
        self.trace_files = tuple(trace_files or ())
        self.line_p = line_p
        self.line_cost = line_cost        # virtual seconds a line-level pre-emption may last
        self.drain_on_error = drain_on_error
        self.stall_p = stall_p            # share of logical tasks that are 'slow nodes'
        self.now = 0.0
        self.log = []
        self.tasks = []
        self.current = None
        self.switches = 0
        self.n_events = 0
        self.pct_points = set()
        if strategy == "pct":
            # priority change points are positions in the event sequence
            self.pct_points = {self.rng.randrange(1, 400) for _ in range(pct_changes)}
        self.failed = None                # first HarnessError seen in any thread
        self.counters = {}
        self._main = self._new_task("main", None, None)
        self._main.thread = threading.current_thread()
        self.current = self._main
        self._tls = threading.local()
        self._tls.task = self._main
        self.line_hook = None

    # ------------------------------------------------------------------ log
    def event(self, kind, detail=None):
        self.n_events += 1
        cur = self.current.id if self.current is not None else -1
        self.log.append((self.n_events, round(self.now, 6), cur, kind, detail))
        if self.n_events > self.max_events:
            raise self._fail(StepCap(f"more than {self.max_events} events"))
        if self.now > self.max_time:
            raise self._fail(StepCap(f"virtual time beyond {self.max_time}s"))

    def count(self, name, n=1):
        self.counters[name] = self.counters.get(name, 0) + n

    def digest(self):
        h = hashlib.sha256()
        for e in self.log:
            h.update(repr(e).encode())
        return h.hexdigest()[:16]

    def schedule_trace(self):
        return [e[2] for e in self.log]

    def _fail(self, exc):
        if self.failed is None:
            self.failed = exc
        return exc

    # ---------------------------------------------------------------- tasks
    def _new_task(self, name, fn, parent):
        t = LTask(len(self.tasks), name, fn, parent)
        t.prio = self.rng.random()
        self.tasks.append(t)
        return t

    def me(self):
        return getattr(self._tls, "task", None)

    def in_sim_thread(self):
        """True when the calling thread is the logical task holding the baton."""
        t = getattr(self._tls, "task", None)
        return t is not None and t is self.current

    def spawn(self, name, fn):
        """Create a logical task; it becomes runnable at once."""
        parent = self.current
        t = self._new_task(name, fn, parent.id if parent else None)
        t.wake_at = self.now
        if self.stall_p and self.rng.random() < self.stall_p:
            t.stall = 200.0
            self.count("stalled_task")
        th = threading.Thread(target=self._thread_main, args=(t,), daemon=True,
                              name=f"sim-{t.id}")
        t.thread = th
        th.start()
        self.event("spawn", (t.id, name))
        return t

    def _thread_main(self, t):
        t.sem.acquire()
        self._tls.task = t
        if self.trace_files and self.line_p > 0:
            sys.settrace(self._trace_call)
        try:
            if self.failed is not None:
                raise self.failed
            t.result = t.fn()
        except BaseException as e:  # noqa: BLE001 - captured, reported by joiner
            t.exc = e
        finally:
            sys.settrace(None)
            t.state = DONE
            try:
                self.event("done", t.id)
            except HarnessError:
                pass
            self._leave(t)

    # ----------------------------------------------------------- scheduling
    def _runnable(self):
        out = []
        for t in self.tasks:
            if t.state == READY and t.wake_at <= self.now:
                out.append(t)
            elif t.state == BLOCKED and t.wake_at <= self.now:
                try:
                    ok = t.cond()
                except BaseException:  # noqa: BLE001
                    ok = True
                if ok:
                    out.append(t)
        return out

    def _pick(self, cur):
        """Choose the next task to hold the baton (may be `cur`)."""
        while True:
            cands = self._runnable()
            if cands:
                break
            # nothing runnable now: jump the clock to the next wake-up
            pend = [t.wake_at for t in self.tasks
                    if t.state != DONE and t.wake_at > self.now]
            if not pend:
                alive = [(t.id, t.name, t.state) for t in self.tasks if t.state != DONE]
                raise self._fail(SimDeadlock(f"no runnable task, alive={alive}"))
            self.now = min(pend)
        if len(cands) == 1:
            return cands[0]
        if self.strategy == "inorder":
            if cur in cands:
                return cur
            return min(cands, key=lambda t: t.id)
        if self.strategy == "pct":
            if self.n_events in self.pct_points and cur in cands:
                cur.prio = -self.rng.random()       # demote the running task
            return max(cands, key=lambda t: (t.prio, -t.id))
        # 'random'
        if cur in cands and self.rng.random() >= self.switch_p:
            return cur
        return cands[self.rng.randrange(len(cands))]

    def _handoff(self, cur, nxt):
        if nxt is cur:
            return
        self.switches += 1
        self.current = nxt
        nxt.sem.release()
        cur.sem.acquire()
        # back in `cur`
        if self.failed is not None and not isinstance(self.failed, type(None)):
            raise self.failed

    def _leave(self, cur):
        """`cur` is finished: pass the baton on and let the thread die."""
        try:
            nxt = self._pick(None)
        except HarnessError:
            # wake everybody so that parked threads can unwind
            self._wake_all(cur)
            return
        self.switches += 1
        self.current = nxt
        nxt.sem.release()

    def _wake_all(self, cur):
        for t in self.tasks:
            if t is not cur and t.state != DONE:
                t.sem.release()

    def point(self, kind, detail=None, cost=0.0):
        """A yield point: log the event, charge `cost` virtual seconds, maybe switch."""
        cur = self.me()
        if cur is None or cur is not self.current:
            # foreign thread (e.g. an Arrow pool thread): atomic, attributed to holder
            self.event(kind, detail)
            return
        self.event(kind, detail)
        cur.wake_at = self.now + cost * cur.stall
        try:
            nxt = self._pick(cur)
        except HarnessError:
            self._wake_all(cur)
            raise
        self._handoff(cur, nxt)

    def atomic(self, kind, detail=None, cost=0.0):
        """Logged and charged, but never a context switch."""
        self.event(kind, detail)
        cur = self.current
        if cur is not None and cost:
            # time passes for the holder: model as clock advance if nobody is ahead
            cur.wake_at = max(cur.wake_at, self.now) + cost * cur.stall

    def sleep(self, dt):
        self.point("sleep", round(dt, 6), cost=max(dt, 0.0))

    def wait_for(self, cond, what="wait"):
        cur = self.me()
        assert cur is self.current, "wait_for from a thread that does not hold the baton"
        if cond():
            return
        cur.state = BLOCKED
        cur.cond = cond
        self.event("block", what)
        try:
            nxt = self._pick(cur)
        except HarnessError:
            cur.state = READY
            self._wake_all(cur)
            raise
        self._handoff(cur, nxt)
        cur.state = READY
        cur.cond = None

    def join(self, tasks):
        self.wait_for(lambda: all(t.state == DONE for t in tasks), "join")

    def run_clients(self, fns, names=None):
        """Run callables as concurrent logical client tasks; return their LTasks."""
        ts = [self.spawn((names[i] if names else f"client{i}"), fn)
              for i, fn in enumerate(fns)]
        self.join(ts)
        return ts

    # ------------------------------------------------------- line pre-emption
    def _trace_call(self, frame, event, arg):
        fn = frame.f_code.co_filename
        for p in self.trace_files:
            if fn.startswith(p):
                # code that only runs the first time in a process - a module body executed
                # by an import, anything numba evaluates while compiling - is not traced:
                # its line events would draw from the PRNG in the first run only
                if frame.f_code.co_name == "<module>" or _once_only_on_stack(frame):
                    return None
                return self._trace_line
        return None

    def _trace_line(self, frame, event, arg):
        if event == "line":
            if self.line_hook is not None:
                self.line_hook(frame)
            if self.rng.random() < self.line_p and not _lock_holder_on_stack(frame):
                code = frame.f_code
                # a pre-empted thread is descheduled for a while (virtual time): without
                # this, tasks that mostly wait for storage at different virtual times are
                # never inside the same two-line window together
                cost = self.line_cost * self.rng.choice((0.0, 0.0, 0.3, 3.0, 30.0))
                self.point("line", (code.co_name, frame.f_lineno), cost)
        return self._trace_line

    def enable_line_tracing_here(self):
        if self.trace_files and self.line_p > 0:
            sys.settrace(self._trace_call)

    # ------------------------------------------------------------ dask seam
    def dask_get(self, dsk, keys, **kwargs):
        """A Dask scheduler: ``dask.config.set(scheduler=sim.dask_get)``."""
        from dask._task_spec import convert_legacy_graph
        from dask.core import flatten
        from dask.local import nested_get

        if not isinstance(dsk, Mapping):
            dsk = dsk.__dask_graph__()
        dsk = convert_legacy_graph(dsk)
        # canonical task order: by key text (names are content tokens or seeded uuids), never
        # by dict position - Dask assembles graphs through sets, whose iteration order
        # depends on PYTHONHASHSEED
        order = {k: i for i, k in enumerate(_canonical_order(dsk))}
        if isinstance(keys, list):
            wanted = set(flatten(keys))
        else:
            wanted = {keys}
        # reachable sub-graph
        deps = {}
        stack = list(wanted)
        while stack:
            k = stack.pop()
            if k in deps:
                continue
            d = set(dsk[k].dependencies)
            deps[k] = d
            stack.extend(d)
        dependents = {k: set() for k in deps}
        for k, d in deps.items():
            for x in d:
                dependents[x].add(k)
        waiting = {k: set(d) for k, d in deps.items() if d}
        ready = sorted((k for k, d in deps.items() if not d), key=order.get)
        cache = {}
        running = {}
        state = {"error": None}
        gid = self.count_get = getattr(self, "count_get", 0) + 1
        self.event("get", (gid, len(deps)))
        cheap = _cheap_node

        def finish(k, value):
            cache[k] = value
            for dep in sorted(dependents[k], key=order.get):
                w = waiting.get(dep)
                if w is not None:
                    w.discard(k)
                    if not w:
                        del waiting[dep]
                        ready.append(dep)

        def make(k):
            node = dsk[k]
            data = {d: cache[d] for d in deps[k]}
            return lambda: node(data)

        while ready or running:
            # cheap nodes (aliases, literals) are run inline: they are not "work"
            progressed = True
            while progressed:
                progressed = False
                for k in list(ready):
                    if cheap(dsk[k]):
                        ready.remove(k)
                        finish(k, dsk[k]({d: cache[d] for d in deps[k]}))
                        progressed = True
            while ready and len(running) < self.workers and state["error"] is None:
                i = self.rng.randrange(len(ready)) if self.strategy != "inorder" else 0
                k = ready.pop(i)
                t = self.spawn(f"g{gid}:{order[k]}", make(k))
                running[k] = t
            if not running:
                if state["error"] is not None:
                    break
                continue
            self.wait_for(lambda: any(t.state == DONE for t in running.values()),
                          f"get{gid}")
            for k in sorted(running, key=order.get):
                t = running[k]
                if t.state == DONE:
                    del running[k]
                    if t.exc is not None:
                        if state["error"] is None:
                            state["error"] = t.exc
                        if isinstance(t.exc, HarnessError):
                            raise t.exc
                    else:
                        finish(k, t.result)
            if state["error"] is not None and (not self.drain_on_error or not running):
                break
        if state["error"] is not None:
            self.event("get-raise", (gid, type(state["error"]).__name__))
            raise state["error"]
        self.event("get-done", gid)
        return nested_get(keys, cache)


# Code that runs while a *real* lock is held (dask's global tokenize lock, the import
# lock, numba's compile lock, logging handler locks, native locks inside pyarrow): parking a
# logical task there would block the next task on that lock for ever while it holds the
# baton.  A line of spatialpandas reached from inside such code is not a pre-emption point.
_LOCKED = ("/dask/tokenize.py", "/numba/", "/pyarrow/", "/logging/", "importlib._bootstrap",
           "<frozen importlib")


_ONCE = ("/numba/", "importlib._bootstrap", "<frozen importlib")


def _once_only_on_stack(frame, limit=120):
    f = frame.f_back
    n = 0
    while f is not None and n < limit:
        fn = f.f_code.co_filename
        for pat in _ONCE:
            if pat in fn:
                return True
        if fn.endswith("dsim/core.py") and f.f_code.co_name == "_thread_main":
            return False
        f = f.f_back
        n += 1
    return False


def _lock_holder_on_stack(frame, limit=120):
    f = frame.f_back
    n = 0
    while f is not None and n < limit:
        fn = f.f_code.co_filename
        for pat in _LOCKED:
            if pat in fn:
                return True
        if fn.endswith("dsim/core.py") and f.f_code.co_name == "_thread_main":
            return False
        f = f.f_back
        n += 1
    return False


_TOKEN = re.compile(r"[0-9a-f]{32}")


def _canonical_order(dsk):
    """Keys of a task graph in an order that depends on the graph's STRUCTURE and on the
    content-derived parts of the names only.  Most Dask names end in a token of their
    content, but dask-expr names *fused* layers by a token that varies with PYTHONHASHSEED
    (found by the self-test): names are therefore compared with their 32-hex tokens blanked
    first, then by the same signature of their dependencies (recursively), and only last
    by their full text."""
    import hashlib
    sig = {}

    def shape(k):
        name, idx = _key_text(k)
        return (_TOKEN.sub("#", name), idx)

    def struct(k):
        # iterative post-order: graphs can be deeper than the recursion limit
        stack = [k]
        while stack:
            cur = stack[-1]
            if cur in sig:
                stack.pop()
                continue
            node = dsk.get(cur)
            deps = [d for d in getattr(node, "dependencies", ()) if d in dsk]
            todo = [d for d in deps if d not in sig]
            if todo:
                stack.extend(todo)
                continue
            inner = sorted((shape(d), sig[d]) for d in deps)
            sig[cur] = hashlib.sha1(repr(inner).encode()).hexdigest()[:16]
            stack.pop()
        return sig[k]
    return sorted(dsk, key=lambda k: (shape(k), struct(k), _key_text(k)))


def _key_text(k):
    if isinstance(k, tuple):
        return (str(k[0]), tuple((0, x) if isinstance(x, int) else (1, str(x)) for x in k[1:]))
    return (str(k), ())


def _cheap_node(node):
    from dask._task_spec import Alias, DataNode
    return isinstance(node, (Alias, DataNode))
