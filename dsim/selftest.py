"""Determinism self-test: `./check selftest [--budget N]`.

For every claimed property the first N cases of its stream are run
  * twice in the same process (A, B),
  * again in reverse order in the same process (C) - catches state leaking between runs,
  * in a fresh interpreter under another PYTHONHASHSEED (D),
and the event-log digests (plus verdicts) must be identical.  A simulator whose runs do
not replay cannot be minimised and its failures cannot be trusted; this is checked before
anything else is believed.  Exit 0 all equal, 2 otherwise.
"""
from __future__ import annotations

import itertools
import json
import os
import subprocess
import sys
import time

from .runner import PY, VERIF, load_prop

PROPS = tuple(os.environ.get("SELFTEST_PROPS", "C04,C06,C09,C10,C11,C12,C16,C18,C19,C20").split(","))


def emit(pid, n):
    from . import seams
    mod = load_prop(pid)
    seams.pin_process()
    mod.warmup()
    cases = list(itertools.islice(mod.cases("quick", 4242), n))
    a = [(r["digest"], r["ok"], r["cls"]) for r in map(mod.run_case, cases)]
    b = [(r["digest"], r["ok"], r["cls"]) for r in map(mod.run_case, cases)]
    c = [(r["digest"], r["ok"], r["cls"]) for r in map(mod.run_case, reversed(cases))][::-1]
    print("SELFTEST-JSON " + json.dumps({"a": a, "b": b, "c": c}))


def main(args):
    n = int(args.budget or 12)
    t0 = time.time()
    procs = {}
    for pid in PROPS:
        for hs in ("0", "4711"):
            env = dict(os.environ, PYTHONHASHSEED=hs, PYTHONPATH=VERIF, OMP_WAIT_POLICY="passive",
                       NUMBA_NUM_THREADS="4", PYTHONDONTWRITEBYTECODE="1")
            procs[(pid, hs)] = subprocess.Popen(
                [PY, "-m", "dsim.selftest", "--emit", pid, str(n)], cwd=VERIF, env=env,
                stdout=subprocess.PIPE, stderr=subprocess.STDOUT, text=True)
    bad = []
    out = {}
    for key, p in procs.items():
        txt, _ = p.communicate(timeout=3600)
        line = next((l for l in txt.splitlines() if l.startswith("SELFTEST-JSON ")), None)
        if line is None:
            bad.append(f"{key}: no result\n{txt[-1500:]}")
            continue
        out[key] = json.loads(line[len("SELFTEST-JSON "):])
    total = 0
    for pid in PROPS:
        r0, r1 = out.get((pid, "0")), out.get((pid, "4711"))
        if not r0 or not r1:
            continue
        total += len(r0["a"])
        for name, x, y in (("same process, second run", r0["a"], r0["b"]),
                           ("same process, reverse order", r0["a"], r0["c"]),
                           ("fresh interpreter, other PYTHONHASHSEED", r0["a"], r1["a"])):
            diff = [i for i, (u, v) in enumerate(zip(x, y)) if u != v]
            if diff or len(x) != len(y):
                bad.append(f"{pid}: {name}: cases {diff[:8]} differ, e.g. {x[diff[0]]} vs "
                           f"{y[diff[0]]}" if diff else f"{pid}: {name}: lengths differ")
    print(f"[selftest] {total} cases x 4 executions over {len(PROPS)} properties in "
          f"{time.time() - t0:.0f}s")
    if bad:
        print("SELFTEST FAILED (non-deterministic simulation):\n" + "\n".join(bad))
        return 2
    print("[selftest] OK: every digest and verdict identical across all executions")
    return 0


if __name__ == "__main__":
    if len(sys.argv) >= 4 and sys.argv[1] == "--emit":
        emit(sys.argv[2], int(sys.argv[3]))
        sys.stdout.flush()
        from .runner import _remove_process_scratch
        _remove_process_scratch()
        os._exit(0)
