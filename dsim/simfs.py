"""Simulated storage: an fsspec filesystem that wraps a real LocalFileSystem
rooted in a per-run scratch directory and puts every call behind the simulator.

Real code decides storage *semantics* (rename into an existing directory,
rm -r, makedirs(exist_ok) behave exactly as on a user's disk); the simulator
decides everything that can vary or go wrong: latency, interleaving (each call
issued directly from Python code is a yield point), listing order, transient
errors, torn writes, stale metadata, crash.

Fault kinds (see DESIGN.md 2.4):
  EIO      raise OSError(EIO), nothing happened
  ENOENT   raise FileNotFoundError, nothing happened (metadata / read ops)
  AFTER    perform the operation, then raise OSError(EIO)
  TORN     a write stream fails after half of this chunk (write/close ops)
  ENOSPC   raise OSError(ENOSPC), nothing happened (write / makedirs)
  VIS      the entry created by this op is missing from listings (ls/find/glob) until t+d
  DEL      the entry removed by this op is still listed (ls/find/glob) until t+d
  SLOW     latency x factor for this op
  CRASH    SimCrash at this op; storage freezes
  FALSE    exists/isdir/isfile answer False although the entry is there
  STALE    this one listing call (ls/find/glob) returns a stale view: the most recently
           created entry below the listed directory is missing and the most recently removed
           one is still there (a single-position fault, not a delay)
"""
from __future__ import annotations

import errno
import io
import os
import sys
import shutil
import threading

from fsspec import AbstractFileSystem
from fsspec.implementations.local import LocalFileSystem

from .core import SimCrash

META_OPS = {"exists", "isdir", "isfile", "info", "ls", "find"}
READ_OPS = META_OPS | {"open-r"}
CREATE_OPS = {"open-w", "makedirs", "mkdir", "mv", "close"}
REMOVE_OPS = {"rm", "rm_file", "rmdir", "mv"}
EFFECT_OPS = {"makedirs", "mkdir", "rm", "rm_file", "rmdir", "mv", "open-w", "close", "cp_file"}
WRITE_OPS = {"write", "close"}

APPLICABLE = {
    "EIO": None,            # every op
    "ENOENT": None,         # every op: the property enumerates FileNotFoundError at every call
    "AFTER": EFFECT_OPS,
    "TORN": WRITE_OPS,
    "HALF": {"mv"},         # a move that is copy + delete (object stores): copied, not deleted
    "ENOSPC": {"write", "makedirs", "mkdir", "open-w"},
    "VIS": CREATE_OPS,
    "DEL": REMOVE_OPS,
    "SLOW": None,
    "STALE": {"ls", "find"},
    "CRASH": None,
    # the predicate answers False (what the fsspec base class makes of an error in
    # info()); NOT part of the default fault set: a wrong answer is not a failure
    "FALSE": {"exists", "isdir", "isfile"},
}


def applicable(kind, op):
    s = APPLICABLE[kind]
    return s is None or op in s


_tls = threading.local()


def _foreign_frames_on_stack(limit=80):
    """True if a pyarrow frame sits between us and the task entry point: the call
    arrives from inside a C++ call and must not be used as a context switch."""
    f = sys._getframe(2)
    n = 0
    while f is not None and n < limit:
        fn = f.f_code.co_filename
        if "/pyarrow/" in fn:
            return True
        if fn.endswith("dsim/core.py") and f.f_code.co_name == "_thread_main":
            return False
        f = f.f_back
        n += 1
    return False


class Store:
    """State of one simulated storage system (one run, or one 'incarnation')."""

    def __init__(self, sim, root, plan=None, *, atomic_close=False, latency=0.005,
                 shuffle_ls=True, repeat=None):
        self.sim = sim
        self.root = os.path.realpath(root)
        self.local = LocalFileSystem()
        self.plan = dict(plan or {})          # op index -> (kind, param)
        self.repeat = dict(repeat or {})      # (op, relpath) -> [kind, remaining]
        self.atomic_close = atomic_close
        self.latency = latency
        self.shuffle_ls = shuffle_ls
        self.opn = 0
        self.frozen = False
        self.foreign_failed = False   # a fault fired in a call made by one of pyarrow's threads
        self.hidden = {}                      # path -> visible from t
        self.ghost = {}                       # path -> (gone from t, info)
        self.fired = {}
        self.ops = []                         # (index, op, relpath) of every fault point
        self.open_writes = {}                 # path -> count
        self.recent_created = []              # paths created during this run, oldest first
        self.recent_removed = []              # (path, info) removed during this run
        self.stale_now = False                # set for the duration of one STALE listing
        self.open_writes_at_crash = {}
        self.conflicts = []                   # (kind, relpath): a task touching a file that
                                              # another task has open for writing
        self.max_delay_until = 0.0

    def note_preexisting(self, paths):
        """Entries that existed before the run, in the order they were created (a dataset put
        there by the harness): a stale listing is an EARLIER view, so it may lack the latest."""
        for q in paths:
            q = self.check(q)
            if q not in self.recent_created:
                self.recent_created.append(q)

    # -- helpers
    def rel(self, path):
        if isinstance(path, (list, tuple)):
            return [self.rel(p) for p in path]
        p = str(path)
        if p.startswith(self.root):
            return p[len(self.root):] or "/"
        return p

    def check(self, path):
        p = os.path.normpath(str(path))
        if not (p == self.root or p.startswith(self.root + os.sep)):
            raise AssertionError(f"SimFS path escapes the scratch root: {path!r}")
        return p

    def fire(self, kind):
        self.fired[kind] = self.fired.get(kind, 0) + 1

    def is_hidden(self, path):
        now = self.sim.now
        p = path
        while len(p) > len(self.root):
            t = self.hidden.get(p)
            if t is not None:
                if t > now:
                    return True
                del self.hidden[p]
            p = os.path.dirname(p)
        return False

    def ghost_info(self, path):
        g = self.ghost.get(path)
        if g is None:
            return None
        if g[0] > self.sim.now:
            return g[1]
        del self.ghost[path]
        return None

    def ghosts_under(self, path):
        out = []
        for p in list(self.ghost):
            if os.path.dirname(p) == path:
                info = self.ghost_info(p)
                if info is not None:
                    out.append(info)
        return out


class SimFS(AbstractFileSystem):
    protocol = ("file", "simfs")
    cachable = False
    root_marker = "/"
    CURRENT = None          # Store used by instances created through the registry

    def __init__(self, store=None, **kwargs):
        super().__init__(**kwargs)
        self.store = store if store is not None else type(self).CURRENT
        if self.store is None:
            raise RuntimeError("no current simulated store")

    @classmethod
    def _strip_protocol(cls, path):
        if isinstance(path, list):
            return [cls._strip_protocol(p) for p in path]
        path = os.fspath(path)
        for pre in ("simfs://", "file://"):
            if path.startswith(pre):
                path = path[len(pre):]
        if len(path) > 1:
            path = path.rstrip("/")
        return path

    def unstrip_protocol(self, name):
        return self._strip_protocol(name)

    @property
    def fsid(self):
        return "simfs"

    # ------------------------------------------------------------ machinery
    def _op(self, op, path, do, *, path2=None, default_cost=1.0, torn=None):
        st = self.store
        depth = getattr(_tls, "depth", 0)
        if depth:
            return do()
        sim = st.sim
        foreign = not sim.in_sim_thread()
        if foreign and (st.foreign_failed or st.frozen):
            # a call from one of pyarrow's own threads (it opens the fragments of a multi-file
            # read there) after that read has already met a fault: whether Arrow still gets to
            # issue it before the failure is delivered is a race inside Arrow.  The failed
            # read fails as a whole - this call fails too and is neither counted nor logged,
            # so the event log is the same whichever way the race goes.
            if st.frozen:
                raise SimCrash("storage frozen")
            cls, args = st.foreign_failed
            raise cls(*args)
        p = st.check(self._strip_protocol(path)) if path is not None else None
        st.opn += 1
        k = st.opn
        rel = st.rel(p) if p is not None else None
        fault = st.plan.get(k)
        if fault is None and st.repeat:
            r = st.repeat.get((op, rel))
            if r is not None and r[1] > 0:
                r[1] -= 1
                fault = (r[0], None)
        if fault is not None and not applicable(fault[0], op):
            fault = None
        st.ops.append((k, op, rel))
        yieldable = sim.in_sim_thread() and not _foreign_frames_on_stack()
        if yieldable:
            st.foreign_failed = False      # back in the library's own code: a new request
        cost = st.latency * (0.2 + 1.6 * sim.rng.random()) * default_cost
        kind = fault[0] if fault else None
        if kind == "SLOW":
            cost *= (fault[1] or 1000.0)
            st.fire("SLOW")
        detail = (k, op, rel, kind) if path2 is None else (k, op, rel, st.rel(path2), kind)
        if yieldable:
            sim.point("fs", detail, cost)
        else:
            sim.atomic("fs*", detail, cost)
        if not yieldable and kind in ("CRASH", "EIO", "ENOSPC", "ENOENT", "TORN"):
            # a fault inside a pyarrow call: that call fails, with this error
            st.foreign_failed = (FileNotFoundError, (errno.ENOENT, "injected ENOENT")) \
                if kind == "ENOENT" else (OSError, (errno.ENOSPC if kind == "ENOSPC" else errno.EIO,
                                                    f"injected {kind}"))
        if st.frozen:
            raise SimCrash(f"storage frozen (op {k} {op} {rel})")
        if kind == "CRASH":
            st.fire("CRASH")
            st.frozen = True
            st.open_writes_at_crash = dict(st.open_writes)   # in-flight writes that stay torn
            raise SimCrash(f"crash at op {k} {op} {rel}")
        if kind == "EIO":
            st.fire("EIO")
            raise OSError(errno.EIO, f"injected EIO at op {k} {op} {rel}")
        if kind == "ENOSPC":
            st.fire("ENOSPC")
            raise OSError(errno.ENOSPC, f"injected ENOSPC at op {k} {op} {rel}")
        if kind == "FALSE":
            st.fire("FALSE")
            return False
        if kind == "ENOENT":
            st.fire("ENOENT")
            raise FileNotFoundError(errno.ENOENT, f"injected ENOENT at op {k} {op} {rel}")
        if kind == "TORN":
            if torn is not None:
                st.fire("TORN")
                torn()
                raise OSError(errno.EIO, f"injected torn write at op {k} {op} {rel}")
        if kind == "HALF" and path2 is not None and os.path.exists(p):
            # fsspec's generic mv is copy + rm: the copy is done, the delete is not
            st.fire("HALF")
            tgt = st.check(self._strip_protocol(path2))
            if os.path.isdir(p):
                shutil.copytree(p, tgt, dirs_exist_ok=True)
            else:
                shutil.copy2(p, tgt)
            if tgt in st.recent_created:
                st.recent_created.remove(tgt)
            st.recent_created.append(tgt)
            raise OSError(errno.EIO, f"injected: move failed between copy and delete at op {k} "
                                     f"{op} {rel}")
        if kind == "STALE":
            st.fire("STALE")
            st.stale_now = int(fault[1] or 1)     # how many of the latest entries are missing
            _tls.depth = depth + 1
            try:
                return do()
            finally:
                _tls.depth = depth
                st.stale_now = False
        pre_info = None
        if op in REMOVE_OPS:
            try:
                st.recent_removed.append((p, st.local.info(p)))
            except OSError:
                pass
        if kind == "DEL":
            try:
                pre_info = st.local.info(p)
            except OSError:
                pre_info = None
        _tls.depth = depth + 1
        try:
            res = do()
        finally:
            _tls.depth = depth
        if op in CREATE_OPS:
            tgt = st.check(self._strip_protocol(path2)) if path2 is not None else p
            if tgt in st.recent_created:
                st.recent_created.remove(tgt)
            st.recent_created.append(tgt)
        if kind == "VIS":
            target = st.check(self._strip_protocol(path2)) if path2 is not None else p
            until = sim.now + (fault[1] or 1.0)
            st.hidden[target] = until
            st.max_delay_until = max(st.max_delay_until, until)
            st.fire("VIS")
        elif kind == "DEL" and pre_info is not None:
            until = sim.now + (fault[1] or 1.0)
            st.ghost[p] = (until, pre_info)
            st.max_delay_until = max(st.max_delay_until, until)
            st.fire("DEL")
        elif kind == "AFTER":
            st.fire("AFTER")
            raise OSError(errno.EIO, f"injected error after effect at op {k} {op} {rel}")
        return res

    def _perm(self, items, key=None):
        st = self.store
        items = sorted(items, key=key)
        if st.shuffle_ls and len(items) > 1:
            st.sim.rng.shuffle(items)
        return items

    # -------------------------------------------------------- metadata ops
    def _info_view(self, p):
        # point lookups (info/exists/isdir/isfile) see the real state; only *listings*
        # can be stale (VIS / DEL), which is the staleness the property names
        return self.store.local.info(p)

    def info(self, path, **kwargs):
        p = self._strip_protocol(path)
        return self._op("info", p, lambda: self._info_view(p))

    def exists(self, path, **kwargs):
        p = self._strip_protocol(path)

        def do():
            try:
                self._info_view(p)
                return True
            except FileNotFoundError:
                return False
        return self._op("exists", p, do)

    def isdir(self, path):
        p = self._strip_protocol(path)

        def do():
            try:
                return self._info_view(p)["type"] == "directory"
            except FileNotFoundError:
                return False
        return self._op("isdir", p, do)

    def isfile(self, path):
        p = self._strip_protocol(path)

        def do():
            try:
                return self._info_view(p)["type"] == "file"
            except FileNotFoundError:
                return False
        return self._op("isfile", p, do)

    def _ls_view(self, p, detail):
        st = self.store
        try:
            infos = st.local.ls(p, detail=True)
        except FileNotFoundError:
            if st.ghost_info(p) is None:
                raise
            infos = []
        infos = [i for i in infos if not st.is_hidden(i["name"])]
        if st.stale_now:
            # one stale view: drop the most recently created entry of this directory, and
            # show the most recently removed one again
            here = [c for c in st.recent_created if os.path.dirname(c) == p
                    and any(i["name"] == c for i in infos)]
            if here:
                lag = set(here[-int(st.stale_now):])
                infos = [i for i in infos if i["name"] not in lag]
            gone = [(q, inf) for q, inf in st.recent_removed if os.path.dirname(q) == p
                    and not os.path.exists(q)]
            if gone and not any(i["name"] == gone[-1][0] for i in infos):
                infos.append(dict(gone[-1][1]))
        names = {i["name"] for i in infos}
        for g in st.ghosts_under(p):
            if g["name"] not in names:
                infos.append(dict(g))
        infos = self._perm(infos, key=lambda i: i["name"])
        if detail:
            return infos
        return [i["name"] for i in infos]

    def ls(self, path, detail=False, **kwargs):
        p = self._strip_protocol(path)
        return self._op("ls", p, lambda: self._ls_view(p, detail))

    def find(self, path, maxdepth=None, withdirs=False, detail=False, **kwargs):
        p = self._strip_protocol(path)

        def do():
            out = {}

            def walk(d, depth):
                for i in self._ls_view(d, True):
                    if i["type"] == "directory":
                        if withdirs:
                            out[i["name"]] = i
                        if maxdepth is None or depth < maxdepth:
                            if self.store.ghost_info(i["name"]) is None:
                                walk(i["name"], depth + 1)
                    else:
                        out[i["name"]] = i
            try:
                top = self._info_view(p)
            except FileNotFoundError:
                top = None
            if top is not None and top["type"] == "file":
                out[p] = top
            elif top is not None:
                walk(p, 1)
            names = self._perm(list(out))
            if detail:
                return {n: out[n] for n in names}
            return names
        return self._op("find", p, do)

    def glob(self, path, maxdepth=None, **kwargs):
        # the base-class implementation works on find(); count it as one op
        p = self._strip_protocol(path)
        base = p.split("*")[0].rsplit("/", 1)[0] or "/"

        def do():
            res = AbstractFileSystem.glob(self, p, maxdepth=maxdepth, **kwargs)
            if isinstance(res, dict):
                return res
            return self._perm(list(res))
        return self._op("find", base, do)

    def expand_path(self, path, recursive=False, maxdepth=None, **kwargs):
        p = self._strip_protocol(path)
        first = p[0] if isinstance(p, list) else p
        base = first.split("*")[0].rsplit("/", 1)[0] or "/"

        def do():
            res = AbstractFileSystem.expand_path(self, p, recursive=recursive,
                                                 maxdepth=maxdepth, **kwargs)
            # fsspec sorts expand_path results; keep that contract
            return sorted(res)
        return self._op("find", base, do)

    def invalidate_cache(self, path=None):
        self.store.sim.count("invalidate_cache")

    def created(self, path):
        return self.store.local.created(self._strip_protocol(path))

    def modified(self, path):
        return self.store.local.modified(self._strip_protocol(path))

    # ---------------------------------------------------------- effect ops
    def makedirs(self, path, exist_ok=False):
        p = self._strip_protocol(path)
        return self._op("makedirs", p, lambda: self.store.local.makedirs(p, exist_ok=exist_ok))

    def mkdir(self, path, create_parents=True, **kwargs):
        p = self._strip_protocol(path)
        return self._op("mkdir", p,
                        lambda: self.store.local.mkdir(p, create_parents=create_parents))

    def rmdir(self, path):
        p = self._strip_protocol(path)
        return self._op("rmdir", p, lambda: self.store.local.rmdir(p))

    def rm_file(self, path):
        p = self._strip_protocol(path)
        return self._op("rm_file", p, lambda: self.store.local.rm_file(p))

    def rm(self, path, recursive=False, maxdepth=None):
        if isinstance(path, (list, tuple)):
            for x in path:
                self.rm(x, recursive=recursive, maxdepth=maxdepth)
            return
        p = self._strip_protocol(path)
        st = self.store

        def do():
            for q in list(st.open_writes):
                if q == p or q.startswith(p + "/"):
                    st.conflicts.append(("remove-while-open-for-write", st.rel(q)))
            return st.local.rm(p, recursive=recursive, maxdepth=maxdepth)
        return self._op("rm", p, do)

    def mv(self, path1, path2, recursive=True, maxdepth=None, **kwargs):
        p1 = self._strip_protocol(path1)
        p2 = self.store.check(self._strip_protocol(path2))
        return self._op("mv", p1, lambda: self.store.local.mv(p1, p2, recursive=recursive),
                        path2=p2)

    move = mv

    def cp_file(self, path1, path2, **kwargs):
        p1 = self._strip_protocol(path1)
        p2 = self.store.check(self._strip_protocol(path2))
        return self._op("cp_file", p1, lambda: self.store.local.cp_file(p1, p2), path2=p2)

    def touch(self, path, truncate=True, **kwargs):
        p = self._strip_protocol(path)
        return self._op("open-w", p, lambda: self.store.local.touch(p, truncate=truncate))

    # ---------------------------------------------------------------- files
    def open(self, path, mode="rb", block_size=None, cache_options=None,
             compression=None, **kwargs):
        p = self._strip_protocol(path)
        st = self.store
        if "b" not in mode:
            raise NotImplementedError("SimFS supports binary modes only")
        if "r" in mode and "+" not in mode:
            def do():
                if st.ghost_info(p) is not None and not os.path.exists(p):
                    raise FileNotFoundError(errno.ENOENT, "deleted (stale listing)", p)
                if st.open_writes.get(p):
                    st.conflicts.append(("read-while-open-for-write", st.rel(p)))
                return SimReadFile(self, p)
            return self._op("open-r", p, do)

        def dow():
            if os.path.isdir(p):
                raise IsADirectoryError(errno.EISDIR, "Is a directory", p)
            if not os.path.isdir(os.path.dirname(p)):
                raise FileNotFoundError(errno.ENOENT, "No such directory", os.path.dirname(p))
            if st.open_writes.get(p):
                st.conflicts.append(("two-writers", st.rel(p)))
            if getattr(self, "_intrans", False):
                # fsspec transaction (state of the filesystem OBJECT, as in every fsspec
                # implementation): the file becomes visible at commit, or never
                f = SimWriteFile(self, p, append=("a" in mode), deferred=True)
                self.transaction.files.append(f)
                return f
            return SimWriteFile(self, p, append=("a" in mode))
        return self._op("open-w", p, dow)

    _open = open

    def cat_file(self, path, start=None, end=None, **kwargs):
        with self.open(path, "rb") as f:
            if start:
                f.seek(start)
            return f.read(None if end is None else end - (start or 0))

    def pipe_file(self, path, value, **kwargs):
        with self.open(path, "wb") as f:
            f.write(value)


class SimReadFile(io.RawIOBase):
    """Read handle: plain local file (reads are not fault points, open is)."""

    def __init__(self, fs, path):
        super().__init__()
        self._f = open(path, "rb")
        self.path = path
        self.mode = "rb"
        self.size = os.fstat(self._f.fileno()).st_size

    def readable(self):
        return True

    def seekable(self):
        return True

    def read(self, n=-1):
        return self._f.read(-1 if n is None else n)

    def readinto(self, b):
        return self._f.readinto(b)

    def readall(self):
        return self._f.read()

    def seek(self, off, whence=0):
        return self._f.seek(off, whence)

    def tell(self):
        return self._f.tell()

    def close(self):
        if not self.closed:
            self._f.close()
        super().close()


class SimWriteFile(io.RawIOBase):
    """Write handle: every write and the close are storage operations."""

    def __init__(self, fs, path, append=False, deferred=False):
        super().__init__()
        self.fs = fs
        self.st = fs.store
        self.path = path
        self.mode = "ab" if append else "wb"
        self._pos = 0
        self._broken = False
        self._deferred = deferred
        self._pending = None
        st = self.st
        st.open_writes[path] = st.open_writes.get(path, 0) + 1
        if st.atomic_close or deferred:
            self._buf = io.BytesIO()
            if append and os.path.exists(path):
                with open(path, "rb") as f:
                    self._buf.write(f.read())
            self._f = None
        else:
            self._buf = None
            self._f = open(path, "ab" if append else "wb")
        self._closed_once = False
        if append and os.path.exists(path):
            self._pos = os.path.getsize(path)

    def writable(self):
        return True

    def tell(self):
        return self._pos

    def _raw_write(self, b):
        if self._f is not None:
            self._f.write(b)
            self._f.flush()
        else:
            self._buf.write(b)

    def write(self, b):
        if self._closed_once:
            # e.g. a pyarrow writer that outlived a failed attempt and is flushed by the
            # garbage collector: not a storage operation
            raise ValueError("I/O operation on closed file")
        b = bytes(b)
        st = self.st
        fs = self.fs

        def do():
            self._raw_write(b)
            self._pos += len(b)
            return len(b)
        def torn():
            self._raw_write(b[: len(b) // 2])
            self._broken = True
        return fs._op("write", self.path, do, default_cost=0.2, torn=torn)

    def flush(self):
        if self._f is not None and not self._f.closed:
            self._f.flush()

    def _finish(self, commit):
        st = self.st
        if self._f is not None:
            self._f.close()
        elif commit and not self._broken:
            if self._deferred:
                self._pending = self._buf.getvalue()     # visible only after commit()
            else:
                with open(self.path, "wb") as f:
                    f.write(self._buf.getvalue())
        st.open_writes[self.path] -= 1
        if st.open_writes[self.path] <= 0:
            del st.open_writes[self.path]

    def close(self):
        if self.closed or self._closed_once:
            super().close()
            return
        self._closed_once = True
        committed = []

        def c():
            committed.append(1)
            self._finish(True)

        def t():
            committed.append(1)
            self._broken = True
            self._finish(False)
        try:
            try:
                self.fs._op("close", self.path, c, default_cost=0.5, torn=t)
            finally:
                if not committed:
                    # the close failed before its effect: nothing is committed in
                    # atomic mode; in progressive mode the bytes written are there
                    self._finish(False)
        finally:
            super().close()

    # fsspec transaction protocol (fsspec.transaction.Transaction.complete)
    def commit(self):
        data, self._pending = self._pending, None
        if data is None:
            return

        def do():
            with open(self.path, "wb") as f:
                f.write(data)
        self.fs._op("close", self.path, do, default_cost=0.5)

    def discard(self):
        self._pending = None

    def __del__(self):
        # never let the garbage collector perform a storage operation
        try:
            if not self._closed_once:
                self._closed_once = True
                self._finish(False)
        except Exception:  # noqa: BLE001
            pass


class SimFSRefresh(SimFS):
    """Variant whose ls() advertises a refresh= parameter (the library branches on it)."""

    def ls(self, path, detail=False, refresh=False, **kwargs):
        return SimFS.ls(self, path, detail=detail, **kwargs)


def register():
    import fsspec
    fsspec.register_implementation("simfs", SimFS, clobber=True)
