import sys

from .runner import worker_main

if __name__ == "__main__":
    worker_main(sys.argv[1:])
