"""Engine E2: a DaskGeoDataFrame as a partitioned replica of a pandas frame, every graph
run by the simulated executor.  Shared by C09, C06, C18 and the Dask half of C20."""
from __future__ import annotations

import math
from collections import Counter

import numpy as np

from . import e1, gen, models


def partitions_of(ddf):
    """The pandas partitions of a Dask frame, computed under the installed scheduler."""
    import dask
    parts = dask.compute(*ddf.to_delayed())
    return list(parts)


def recs(df, with_index=True):
    return models.frame_records(df, with_index=with_index)


def series_values(s):
    return [models.cell(v) for v in s.tolist()]


def expected_distance_map(spec, p, cols, active=None):
    """record (without index) -> set of admissible Hilbert distances."""
    sp = dict(spec, active=active or spec["active"])
    exp = e1.expected_distances(sp, p)
    if exp is None:
        return None
    out = {}
    for rec, d in zip(gen.spec_records(spec, with_index=False, cols=cols), exp):
        out.setdefault(rec, set()).add(float(d))
    return out


def check_packed(parts, spec, p, npartitions, what="pack_partitions"):
    """C09 clauses on the list of output partitions (pandas frames)."""
    cols = list(parts[0].columns) if parts else spec["order"]
    want = Counter(gen.spec_records(spec, with_index=False, cols=cols))
    got = Counter()
    for d in parts:
        got.update(recs(d, with_index=False))
    if got != want:
        missing = list((want - got).elements())[:3]
        extra = list((got - want).elements())[:3]
        return ("rows-mismatch", f"{what}: {sum(got.values())} rows for {sum(want.values())} "
                f"input rows; missing={missing} extra={extra}")
    dm = expected_distance_map(spec, p, cols)
    last = None
    for k, d in enumerate(parts):
        if d.index.name != "hilbert_distance":
            return ("index-name", f"{what}: partition {k} index is named {d.index.name!r}")
        idx = [models.cell(v) for v in d.index.tolist()]
        if dm is not None:
            for rec, dist in zip(recs(d, with_index=False), idx):
                if dist not in dm.get(rec, ()):
                    return ("index-mismatch", f"{what}: partition {k} row {rec} has index {dist}, "
                            f"expected one of {sorted(dm.get(rec, []))}")
        if idx != sorted(idx):
            return ("order", f"{what}: partition {k} not sorted: {idx}")
        if idx and last is not None and idx[0] < last:
            return ("order", f"{what}: partition {k} starts at {idx[0]} below previous end {last}")
        if idx:
            last = idx[-1]
    # checked last, so that a known shortfall in the count never masks a row/order violation
    if len(parts) != npartitions:
        return ("partition-count", f"{what}: {len(parts)} partitions, {npartitions} requested")
    return None


def values_close(a, b):
    """Equality of numeric sequences with NaN == NaN (exact: same kernels, same inputs)."""
    if len(a) != len(b):
        return False
    for x, y in zip(a, b):
        fx, fy = float(x), float(y)
        if math.isnan(fx) or math.isnan(fy):
            if not (math.isnan(fx) and math.isnan(fy)):
                return False
        elif fx != fy:
            return False
    return True


def np_rows(a):
    return [tuple(models.freeze(float(v)) for v in row) for row in np.asarray(a, dtype=float)]
