"""Workload generation: geometry elements, arrays, frames, partitionings, boxes.

Everything is drawn from the `random.Random` passed in and comes out as plain
JSON-serialisable data (a *spec*), so a case can be written to a replay file and
shrunk by editing the spec.  Coordinates are small integers and halves: every
product and difference is exact in float64, so the exact reference model and
the float implementation must agree bit for bit.
"""
from __future__ import annotations

import math

import numpy as np
import pandas as pd

from .models import KINDS

NAN = float("nan")
GEO_NAMES = ("shape", "pts", "lines", "zones")
SUBTYPES = ("float64", "float32", "int64", "int32", "int16")


# ------------------------------------------------------------------ elements
def gen_coord(rng, lo=0, hi=16, halves=True):
    c = rng.randint(lo, hi)
    if halves and c < hi and rng.random() < 0.2:
        return c + 0.5
    return float(c)


def _rect_ring(x0, y0, x1, y1, ccw=True):
    r = [x0, y0, x1, y0, x1, y1, x0, y1, x0, y0]
    if not ccw:
        r = [x0, y0, x0, y1, x1, y1, x1, y0, x0, y0]
    return [float(v) for v in r]


def _tri_ring(rng, x0, y0, x1, y1, ccw=True):
    # right triangle in the rectangle, one of four corners cut
    pts = [(x0, y0), (x1, y0), (x1, y1), (x0, y1)]
    del pts[rng.randrange(4)]
    pts.append(pts[0])
    if not ccw:
        pts.reverse()
    # the three remaining corners of a ccw rectangle are ccw
    return [float(v) for p in pts for v in p]


def _span(rng, lo=0, hi=16, minw=1, maxw=8):
    w = rng.randint(minw, maxw)
    a = rng.randint(lo, hi - w)
    return a, a + w


def _star_ring(rng):
    """A simple polygon with 4-7 integer vertices that is neither a rectangle nor a right
    triangle: random points sorted by angle around an interior point (vertices that are not
    extremal in x or y, edges of every slope).  None if the draw is degenerate."""
    cx, cy = rng.randint(3, 13), rng.randint(3, 13)
    pts = {}
    for _ in range(rng.randint(4, 7)):
        x, y = rng.randint(0, 16), rng.randint(0, 16)
        if (x, y) == (cx, cy):
            continue
        a = math.atan2(y - cy, x - cx)
        d = (x - cx) ** 2 + (y - cy) ** 2
        key = round(a, 9)
        if key not in pts or pts[key][0] < d:
            pts[key] = (d, x, y)
    ring = [(x, y) for _, (d, x, y) in sorted(pts.items())]
    if len(ring) < 3:
        return None
    area2 = sum(ring[i][0] * ring[(i + 1) % len(ring)][1] - ring[(i + 1) % len(ring)][0] * ring[i][1]
                for i in range(len(ring)))
    if area2 == 0:
        return None
    if rng.random() < 0.3:
        ring.reverse()
    ring.append(ring[0])
    return [float(v) for p in ring for v in p]


def gen_polygon(rng, ints=False):
    if rng.random() < 0.25:
        star = _star_ring(rng)
        if star is not None:
            return [star]
    x0, x1 = _span(rng)
    y0, y1 = _span(rng)
    ccw = rng.random() < 0.8
    if rng.random() < 0.7:
        rings = [_rect_ring(x0, y0, x1, y1, ccw)]
        if x1 - x0 >= 2 and y1 - y0 >= 2 and rng.random() < 0.5:
            if ints or rng.random() < 0.5:
                hx0 = rng.randint(x0 + 1, x1 - 1)
                hy0 = rng.randint(y0 + 1, y1 - 1)
                hx1 = rng.randint(hx0, x1 - 1)
                hy1 = rng.randint(hy0, y1 - 1)
                if hx1 > hx0 and hy1 > hy0:
                    rings.append(_rect_ring(hx0, hy0, hx1, hy1, not ccw))
            else:
                rings.append(_rect_ring(x0 + 0.5, y0 + 0.5, x1 - 0.5, y1 - 0.5, not ccw))
    else:
        rings = [_tri_ring(rng, x0, y0, x1, y1, ccw)]
    return rings


def gen_line(rng, ints=False):
    n = rng.randint(2, 5)
    pts = []
    x, y = gen_coord(rng, halves=not ints), gen_coord(rng, halves=not ints)
    for _ in range(n):
        pts += [x, y]
        x = min(16.0, max(0.0, x + rng.randint(-4, 4)))
        y = min(16.0, max(0.0, y + rng.randint(-4, 4)))
    return pts


def gen_element(rng, kind, ints=False):
    h = not ints
    if kind == "point":
        return [gen_coord(rng, halves=h), gen_coord(rng, halves=h)]
    if kind == "multipoint":
        return [gen_coord(rng, halves=h) for _ in range(2 * rng.randint(1, 4))]
    if kind == "line":
        return gen_line(rng, ints)
    if kind == "ring":
        x0, x1 = _span(rng)
        y0, y1 = _span(rng)
        if rng.random() < 0.5:
            return _rect_ring(x0, y0, x1, y1, rng.random() < 0.5)
        return _tri_ring(rng, x0, y0, x1, y1)
    if kind == "multiline":
        return [gen_line(rng, ints) for _ in range(rng.randint(1, 3))]
    if kind == "polygon":
        return gen_polygon(rng, ints)
    if kind == "multipolygon":
        return [gen_polygon(rng, ints) for _ in range(rng.randint(1, 3))]
    raise ValueError(kind)


def empty_element(kind, subtype="float64"):
    if kind == "point":
        return [NAN, NAN] if subtype.startswith("float") else None
    return []


def gen_values(rng, kind, n, p_missing=0.15, p_empty=0.1, subtype="float64",
               dup=0.15):
    ints = not subtype.startswith("float")
    vals = []
    for _ in range(n):
        r = rng.random()
        if r < p_missing:
            vals.append(None)
        elif r < p_missing + p_empty:
            e = empty_element(kind, subtype)
            if kind in ("multiline", "polygon", "multipolygon") and rng.random() < 0.3:
                # another encoding of "no vertices": parts that are themselves empty
                e = [[[]]] if kind == "multipolygon" and rng.random() < 0.5 else [[]]
            vals.append(e)
        elif vals and rng.random() < dup:
            prev = [v for v in vals if v is not None and v != [] and v == v]
            vals.append(rng.choice(prev) if prev else gen_element(rng, kind, ints))
        else:
            vals.append(gen_element(rng, kind, ints))
    return vals


# -------------------------------------------------------------------- arrays
def array_class(kind):
    import spatialpandas.geometry as g
    return {"point": g.PointArray, "multipoint": g.MultiPointArray, "line": g.LineArray,
            "ring": g.RingArray, "multiline": g.MultiLineArray, "polygon": g.PolygonArray,
            "multipolygon": g.MultiPolygonArray}[kind]


def build_array(kind, values, subtype="float64"):
    cls = array_class(kind)
    if kind == "point":
        vals = [None if v is None else np.asarray(v, dtype=subtype) for v in values]
        if not vals:
            return cls(np.zeros(0, dtype=subtype))
        if all(v is None for v in vals):
            return cls(vals, dtype=subtype)
        return cls(vals, dtype=subtype)
    return cls(list(values), dtype=subtype)


# -------------------------------------------------------------------- frames
def gen_frame_spec(rng, nrows, *, kinds=None, n_geo=None, p_missing=0.12, p_empty=0.08,
                   index_kind=None, subtype=None, active=None, extra=True):
    if n_geo is None:
        n_geo = rng.choice((1, 1, 2, 3))
    if kinds is None:
        kinds = [rng.choice(KINDS) for _ in range(n_geo)]
    names = list(GEO_NAMES[: len(kinds)])
    if len(kinds) > 1 and rng.random() < 0.35:
        # a column literally called 'geometry' (pandas/geopandas habit); the code treats the
        # name specially, so it must also work when that column is NOT the active one
        names[rng.randrange(len(names))] = "geometry"
    rng.shuffle(names)
    cols = []
    for name, kind in zip(names, kinds):
        st = subtype or "float64"
        pm, pe = p_missing, p_empty
        mode = rng.random()
        if mode < 0.1:
            pm, pe = 0.0, 0.0
        elif mode < 0.2:
            pm, pe = 0.5, 0.2
        cols.append({"name": name, "kind": kind, "subtype": st,
                     "values": gen_values(rng, kind, nrows, pm, pe, st)})
    spec = {"cols": cols, "n": nrows}
    ex = {}
    if extra:
        ex["v"] = list(range(100, 100 + nrows))
        ex["s"] = [rng.choice(("a", "b", "c")) for _ in range(nrows)]
    spec["extra"] = ex
    # column order: interleave extras and geometry columns
    order = [c["name"] for c in cols] + list(ex)
    rng.shuffle(order)
    spec["order"] = order
    if index_kind is None:
        index_kind = rng.choice(("default", "default", "named", "nonunique", "str"))
    spec["index"] = gen_index(rng, nrows, index_kind)
    spec["active"] = active if active is not None else rng.choice([c["name"] for c in cols])
    return spec


def gen_index(rng, n, kind):
    if kind == "default":
        return {"kind": "default"}
    if kind == "named":
        vals = list(range(10, 10 + n))
        rng.shuffle(vals)
        return {"kind": "named", "name": "rid", "values": vals}
    if kind == "nonunique":
        return {"kind": "nonunique", "name": None,
                "values": [rng.randint(0, max(1, n // 2)) for _ in range(n)]}
    if kind == "nearsorted":
        # unnamed unique integers 0..n-1, sorted but for a few swaps of interior neighbours:
        # a partition may start with 0 and end with len-1 without being positional
        vals = list(range(n))
        for i in range(1, n - 2):
            if rng.random() < 0.5:
                vals[i], vals[i + 1] = vals[i + 1], vals[i]
        return {"kind": "nearsorted", "name": None, "values": vals}
    if kind == "str":
        vals = [f"k{i:02d}" for i in range(n)]
        rng.shuffle(vals)
        return {"kind": "str", "name": "key", "values": vals}
    raise ValueError(kind)


def build_index(ispec, n):
    if ispec["kind"] == "default":
        return pd.RangeIndex(n)
    return pd.Index(ispec["values"][:n], name=ispec.get("name"))


def build_frame(spec, rows=None):
    """GeoDataFrame from a spec (optionally restricted to the row positions `rows`)."""
    from spatialpandas import GeoDataFrame
    n = spec["n"]
    sel = list(range(n)) if rows is None else list(rows)
    data = {}
    bycol = {c["name"]: c for c in spec["cols"]}
    for name in spec["order"]:
        if name in bycol:
            c = bycol[name]
            data[name] = build_array(c["kind"], [c["values"][i] for i in sel], c["subtype"])
        else:
            data[name] = [spec["extra"][name][i] for i in sel]
    if spec["index"]["kind"] == "default":
        index = pd.RangeIndex(n)[sel] if rows is not None else pd.RangeIndex(n)
    else:
        index = pd.Index([spec["index"]["values"][i] for i in sel],
                         name=spec["index"].get("name"))
    df = GeoDataFrame(data, index=index, geometry=spec["active"])
    return df


def spec_records(spec, rows=None, with_index=True, cols=None):
    """The rows the spec describes, in the same form as models.frame_records."""
    from .models import cell, freeze
    n = spec["n"]
    sel = list(range(n)) if rows is None else list(rows)
    bycol = {c["name"]: c for c in spec["cols"]}
    out = []
    names = cols if cols is not None else spec["order"]
    for i in sel:
        r = []
        for name in names:
            if name in bycol:
                r.append(freeze(bycol[name]["values"][i]))
            else:
                r.append(cell(spec["extra"][name][i]))
        if with_index:
            iv = i if spec["index"]["kind"] == "default" else spec["index"]["values"][i]
            r = [cell(iv)] + r
        out.append(tuple(r))
    return out


def flatten_axis(kind, v, axis, const):
    """The element with every x (axis 0) or y (axis 1) coordinate replaced by `const`:
    data whose total extent is degenerate in exactly one axis."""
    if v is None:
        return None
    if isinstance(v, list) and v and isinstance(v[0], list):
        return [flatten_axis(kind, x, axis, const) for x in v]
    out = list(v)
    for i in range(axis, len(out), 2):
        if out[i] == out[i]:            # keep NaN (empty point)
            out[i] = float(const)
    return out


def shift_spec(spec, dx):
    """Translate every geometry column of a frame spec by (dx, dx): extents reaching below
    the origin, or narrow relative to the magnitude of the coordinates (in place)."""
    def sh(v):
        if v is None:
            return None
        if isinstance(v, list) and v and isinstance(v[0], list):
            return [sh(x) for x in v]
        return [c + dx for c in v]
    for c in spec["cols"]:
        c["values"] = [sh(v) for v in c["values"]]
    return spec


def to_tenths(rng, values, f32=True):
    """Element values moved onto decimal tenths, rounded to float32 unless f32=False (the exact
    float64 value of the stored number is kept, so the model holds what the array stores)."""
    def one(c):
        if c != c:
            return c
        v = min(16.0, int(c) + rng.randint(0, 9) / 10)
        return float(np.float32(v)) if f32 else v

    def rec(v):
        if v is None:
            return None
        if isinstance(v, list) and v and isinstance(v[0], list):
            return [rec(x) for x in v]
        return [one(c) for c in v]
    return [rec(v) for v in values]


def to_noisy(rng, values):
    """Every coordinate moved by a random fraction with a full double mantissa (some below 1
    in magnitude): for oracles that only compare, copy or take minima / maxima."""
    def one(c):
        if c != c:
            return c
        return (c % 2.0) * rng.random() if rng.random() < 0.3 else c + rng.random()

    def rec(v):
        if v is None:
            return None
        if isinstance(v, list) and v and isinstance(v[0], list):
            return [rec(x) for x in v]
        return [one(c) for c in v]
    return [rec(v) for v in values]


def loosen_rings(spec, rng, prob=0.4):
    """Polygons as they arrive from unvalidated sources: a further ring that is NOT inside the
    first one (the library never validates; an element's box is the box of all its vertices).
    Only for workloads whose oracle needs boxes, not areas or point-in-polygon (in place)."""
    def extra_ring():
        x0, x1 = _span(rng)
        y0, y1 = _span(rng)
        return _rect_ring(x0, y0, x1, y1, rng.random() < 0.5)
    hit = False
    for c in spec["cols"]:
        if c["kind"] not in ("polygon", "multipolygon") or not c["subtype"].startswith("float"):
            continue
        for i, v in enumerate(c["values"]):
            if not v or rng.random() >= prob:
                continue
            v = [list(r) for r in v] if c["kind"] == "polygon" else \
                [[list(r) for r in poly] for poly in v]
            if c["kind"] == "polygon":
                v.append(extra_ring())
            else:
                v[rng.randrange(len(v))].append(extra_ring())
            c["values"][i] = v
            hit = True
    return hit


def make_collinear(spec, rng):
    """Flatten one axis of the active geometry column of a frame spec (in place)."""
    c = col_of(spec, spec["active"])
    axis = rng.randrange(2)
    const = rng.randint(0, 16)
    c["values"] = [flatten_axis(c["kind"], v, axis, const) for v in c["values"]]
    return spec


def col_of(spec, name):
    for c in spec["cols"]:
        if c["name"] == name:
            return c
    raise KeyError(name)


def shrink_spec_rows(spec, keep):
    """A copy of the spec with only the row positions in `keep`."""
    keep = list(keep)
    out = {"cols": [dict(c, values=[c["values"][i] for i in keep]) for c in spec["cols"]],
           "n": len(keep),
           "extra": {k: [v[i] for i in keep] for k, v in spec["extra"].items()},
           "order": list(spec["order"]), "active": spec["active"]}
    ix = dict(spec["index"])
    if ix["kind"] != "default":
        ix["values"] = [ix["values"][i] for i in keep]
    out["index"] = ix
    return out


# --------------------------------------------------------------- partitioning
def gen_splits(rng, n, k):
    """k contiguous chunks of range(n) (some may be empty when allowed by caller)."""
    if k <= 1 or n == 0:
        return [list(range(n))]
    cuts = sorted(rng.randint(0, n) for _ in range(k - 1))
    edges = [0] + cuts + [n]
    return [list(range(edges[i], edges[i + 1])) for i in range(k)]


def gen_box(rng, lo=0, hi=16, anchors=None):
    """A box of positive width and height; sometimes aligned to `anchors` (x, y lists)."""
    def axis(vals):
        if vals and rng.random() < 0.5:
            a = rng.choice(vals)
            b = rng.choice(vals)
            if a != b and all(math.isfinite(v) for v in (a, b)):
                return (min(a, b), max(a, b))
        a = gen_coord(rng, lo, hi)
        w = rng.choice((0.5, 1, 2, 3, 5, 8, 16))
        return (a, a + w) if rng.random() < 0.5 else (a - w, a)
    ax = anchors[0] if anchors else None
    ay = anchors[1] if anchors else None
    x0, x1 = axis(ax)
    y0, y1 = axis(ay)
    return [float(x0), float(y0), float(x1), float(y1)]
