"""Reference models (oracles): plain Python, exact arithmetic, independent of the
library's own comparison / bounds / intersection code.

An *element value* is ``None`` (missing) or nested lists of numbers:
  point          [x, y]              ([nan, nan] = empty)
  multipoint     [x0, y0, x1, y1 …]  ([] = empty)
  line / ring    [x0, y0, x1, y1 …]
  multiline      [[…], […]]
  polygon        [[shell…], [hole…] …]
  multipolygon   [[[shell…], [hole…]], …]
"""
from __future__ import annotations

import math
from fractions import Fraction

import numpy as np

KINDS = ("point", "multipoint", "line", "ring", "multiline", "polygon", "multipolygon")
NEST = {"point": 0, "multipoint": 1, "line": 1, "ring": 1, "multiline": 2,
        "polygon": 2, "multipolygon": 3}


# ------------------------------------------------------------------ extraction
def kind_of(arr):
    return type(arr).__name__[:-5].lower()      # PointArray -> point


def array_values(arr):
    """Element values of a geometry array, read from its arrow storage."""
    kind = kind_of(arr)
    data = arr.data
    if kind == "point":
        out = []
        dt = arr.numpy_dtype
        for v in data.to_pylist():
            if v is None:
                out.append(None)
            else:
                out.append([_num(x) for x in np.frombuffer(v, dtype=dt).tolist()])
        return out
    return [_norm(v) for v in data.to_pylist()]


def _num(x):
    return float(x)


def _norm(v):
    if v is None:
        return None
    if isinstance(v, list):
        return [_norm(x) for x in v]
    return float(v) if not (isinstance(v, float) and math.isnan(v)) else v


def values_equal(a, b):
    """Deep equality with NaN == NaN."""
    if a is None or b is None:
        return a is None and b is None
    if isinstance(a, list) and isinstance(b, list):
        return len(a) == len(b) and all(values_equal(x, y) for x, y in zip(a, b))
    if isinstance(a, list) or isinstance(b, list):
        return False
    try:
        fa, fb = float(a), float(b)
    except (TypeError, ValueError):
        return a == b
    if math.isnan(fa) or math.isnan(fb):
        return math.isnan(fa) and math.isnan(fb)
    return fa == fb


def freeze(v):
    """Hashable form of an element value / cell value (NaN canonicalised)."""
    if v is None:
        return None
    if isinstance(v, (list, tuple)):
        return tuple(freeze(x) for x in v)
    if isinstance(v, (float, np.floating)):
        if math.isnan(v):
            return "nan"
        return float(v)
    if isinstance(v, (np.integer,)):
        return int(v)
    if isinstance(v, (np.bool_,)):
        return bool(v)
    if v is np.nan:
        return "nan"
    try:
        import pandas as pd
        if v is pd.NA or v is pd.NaT:
            return "nan"
    except Exception:  # noqa: BLE001
        pass
    return v


def cell(v):
    """Value of a non-geometry cell, compared by value rather than pandas dtype."""
    v = freeze(v)
    if isinstance(v, int) and not isinstance(v, bool):
        return float(v)
    return v


def frame_records(df, with_index=True):
    """Rows of a (Geo)DataFrame as hashable tuples: (index?, col values...)."""
    from spatialpandas.geometry import GeometryDtype
    cols = []
    for c in df.columns:
        s = df[c]
        if isinstance(s.dtype, GeometryDtype):
            cols.append([freeze(v) for v in array_values(s.array)])
        else:
            cols.append([cell(v) for v in s.tolist()])
    idx = [cell(v) if not isinstance(v, tuple) else tuple(cell(x) for x in v)
           for v in df.index.tolist()]
    rows = []
    for i in range(len(df)):
        r = tuple(c[i] for c in cols)
        rows.append(((idx[i],) + r) if with_index else r)
    return rows


# ---------------------------------------------------------------- flat coords
def coords(kind, v):
    """All (x, y) vertices of an element value, as floats (NaN kept)."""
    if v is None:
        return []
    flat = []

    def rec(x, depth):
        if depth == 0:
            flat.extend(x)
        else:
            for y in x:
                rec(y, depth - 1)
    rec(v, max(NEST[kind] - 1, 0) if kind != "point" else 0)
    return [(flat[i], flat[i + 1]) for i in range(0, len(flat) - 1, 2)]


def tight_bounds(kind, v):
    """(x0, y0, x1, y1) over finite coordinates; NaNs when there is none."""
    xs = [x for x, _ in coords(kind, v) if _finite(x)]
    ys = [y for _, y in coords(kind, v) if _finite(y)]
    x0, x1 = (min(xs), max(xs)) if xs else (math.nan, math.nan)
    y0, y1 = (min(ys), max(ys)) if ys else (math.nan, math.nan)
    return (x0, y0, x1, y1)


def _finite(x):
    return isinstance(x, (int, float)) and math.isfinite(x)


def tight_total_bounds(kind, values):
    bs = [tight_bounds(kind, v) for v in values if v is not None]
    out = []
    for j, f in ((0, min), (1, min), (2, max), (3, max)):
        c = [b[j] for b in bs if not math.isnan(b[j])]
        out.append(f(c) if c else math.nan)
    return tuple(out)


def is_inert(kind, v):
    """Missing, or without any finite coordinate."""
    if v is None:
        return True
    return not any(_finite(x) and _finite(y) for x, y in coords(kind, v))


def bounds_equal(a, b):
    def f(v):
        return float("nan") if v is None else float(v)      # null and NaN both mean undefined
    return len(a) == len(b) and all(values_equal(f(x), f(y)) for x, y in zip(a, b))


# ------------------------------------------------------------------- refgeom
def _F(x):
    return Fraction(x)


def _pt_in_box(x, y, box):
    x0, y0, x1, y1 = box
    return x0 <= x <= x1 and y0 <= y <= y1


def _seg_box(p, q, box):
    """Closed segment vs closed box, exact (Liang-Barsky on Fractions)."""
    x0, y0, x1, y1 = box
    px, py = p
    dx, dy = q[0] - px, q[1] - py
    t0, t1 = Fraction(0), Fraction(1)
    for d, lo, hi, s in ((dx, x0, x1, px), (dy, y0, y1, py)):
        if d == 0:
            if s < lo or s > hi:
                return False
        else:
            a, b = (lo - s) / d, (hi - s) / d
            if a > b:
                a, b = b, a
            t0, t1 = max(t0, a), min(t1, b)
            if t0 > t1:
                return False
    return True


def _ring_pts(flat):
    return [(_F(flat[i]), _F(flat[i + 1])) for i in range(0, len(flat) - 1, 2)
            if _finite(flat[i]) and _finite(flat[i + 1])]


def _path_hits_box(flat, box):
    pts = _ring_pts(flat)
    if not pts:
        return False
    if len(pts) == 1:
        return _pt_in_box(pts[0][0], pts[0][1], box)
    return any(_seg_box(pts[i], pts[i + 1], box) for i in range(len(pts) - 1))


def _strictly_inside_ring(x, y, flat):
    """Crossing number; only called for points known not to lie on the ring."""
    pts = _ring_pts(flat)
    n = len(pts)
    inside = False
    for i in range(n):
        (ax, ay), (bx, by) = pts[i], pts[(i + 1) % n]
        if (ay > y) != (by > y):
            xi = ax + (y - ay) * (bx - ax) / (by - ay)
            if xi > x:
                inside = not inside
    return inside


def _polygon_hits_box(rings, box):
    rings = [r for r in rings if len(r) >= 2]
    if not rings:
        return False
    for r in rings:
        if _path_hits_box(r, box):
            return True
    # no ring touches the closed box: the box is wholly inside or outside each ring
    x, y = box[0], box[1]
    if not _strictly_inside_ring(x, y, rings[0]):
        return False
    return not any(_strictly_inside_ring(x, y, h) for h in rings[1:])


def intersects_box(kind, v, box):
    """Does the closed point set of element `v` meet the closed box (x0,y0,x1,y1)?"""
    if v is None:
        return False
    x0, y0, x1, y1 = (_F(b) for b in box)
    if x1 < x0:
        x0, x1 = x1, x0
    if y1 < y0:
        y0, y1 = y1, y0
    box = (x0, y0, x1, y1)
    if kind in ("point", "multipoint"):
        return any(_pt_in_box(px, py, box) for px, py in _ring_pts(v))
    if kind in ("line", "ring"):
        return _path_hits_box(v, box)
    if kind == "multiline":
        return any(_path_hits_box(p, box) for p in v)
    if kind == "polygon":
        return _polygon_hits_box(v, box)
    if kind == "multipolygon":
        return any(_polygon_hits_box(p, box) for p in v)
    raise ValueError(kind)


# ---------------------------------------------------------- point vs polygon
def point_in_polygon_strict(x, y, rings):
    """True strictly inside shell minus holes, None on a boundary, else False."""
    x, y = _F(x), _F(y)
    for r in rings:
        pts = _ring_pts(r)
        for i in range(len(pts)):
            a, b = pts[i], pts[(i + 1) % len(pts)]
            if _on_segment(x, y, a, b):
                return None
    if not rings or not _strictly_inside_ring(x, y, rings[0]):
        return False
    return not any(_strictly_inside_ring(x, y, h) for h in rings[1:])


def _on_segment(x, y, a, b):
    cross = (b[0] - a[0]) * (y - a[1]) - (b[1] - a[1]) * (x - a[0])
    if cross != 0:
        return False
    return (min(a[0], b[0]) <= x <= max(a[0], b[0])
            and min(a[1], b[1]) <= y <= max(a[1], b[1]))


# ------------------------------------------------------------ Hilbert reference
def _xy2d(p, x, y):
    """Classical Hilbert curve (starts at (0,0), ends at (2^p-1, 0)): cell -> distance."""
    n = 1 << p
    d = 0
    s = n >> 1
    while s > 0:
        rx = 1 if (x & s) else 0
        ry = 1 if (y & s) else 0
        d += s * s * ((3 * rx) ^ ry)
        if ry == 0:
            if rx == 1:
                x = n - 1 - x
                y = n - 1 - y
            x, y = y, x
        s >>= 1
    return d


def _cell(mid, lo, hi, n):
    if hi == lo:
        hi = lo + 1.0                      # zero extent is widened by one
    if mid != mid:                         # NaN (no extent): the library's cast clips to cell 0
        return 0
    c = (mid - lo) * (n / (hi - lo))
    c = int(c)                             # truncation, like astype(int64)
    return 0 if c < 0 else (n - 1 if c > n - 1 else c)


def hilbert_reference(kind, values, total_bounds, p):
    """Independent reference for hilbert_distance: the curve position of the cell, in the
    2^p x 2^p grid spanning total_bounds, that holds the centre of each element's bounding
    box (missing / empty elements -> cell (0, 0)).  Same float64 operations, in the same
    order, as the library's scaling, so results must agree exactly."""
    x0, y0, x1, y1 = (float(v) for v in total_bounds)
    n = 1 << p
    out = []
    for v in values:
        b = tight_bounds(kind, v)
        mx = (b[0] + b[2]) / 2.0
        my = (b[1] + b[3]) / 2.0
        out.append(_xy2d(p, _cell(mx, x0, x1, n), _cell(my, y0, y1, n)))
    return out
