"""C16 - derived arrays hold the same elements and behave like fresh ones.
Engine E4 (sequential histories): the property quantifies over *derivation histories*;
a state machine derives arrays from arrays (index, slice, mask, take, concat, copy,
iteration, Series/DataFrame wrapping, and two restart steps - pickle and parquet round
trips through SimFS) and refines every step against a Python-list model.  There is no
fault or schedule dimension in this property (stated in DESIGN.md)."""
from __future__ import annotations

import copy
import hashlib
import json
import os
import pickle
import random

import numpy as np
import pandas as pd

from .. import e1, e2, gen, models, seams
from ..core import HarnessError
from ..runner import mix, result

PROP = "C16"
LEVEL = "exploration"
RULE = ("one case = a source array (one of 7 kinds x 5 subtypes, missing and empty elements) and a "
        "history of up to 30 derivation steps over a pool of (array, model list) pairs, chains up to "
        "depth 6, drawn from splitmix64(VERIF_SEED, run index). After every step: len, isna, every "
        "element against the model list, expected exception types for invalid requests, and "
        "bounds / total_bounds / length / area / intersects_bounds / intersects(shape) / "
        "hilbert_distance on the derived array against the same quantities on a fresh array built "
        "from the model list. Non-trivial: >= 3 successful derivation steps; distinct = distinct (input, "
        "operation sequence) digests.")
ASSUMPTIONS = [
    "sequential refinement only: this property has no schedule, clock or fault in it; pickle and "
    "parquet round trips play the role of 'restart with only durable state surviving'",
    "when a derived quantity raises on the fresh twin built from the model as well, the step is not "
    "comparable (counted by a probe); when only the derived array raises it is a violation",
    "coordinates are integers and halves, so derived quantities must agree exactly",
]
COMPONENTS = {
    "real": ["spatialpandas geometry arrays (from /repo)", "pandas Series/DataFrame indexing",
             "pyarrow", "pickle", "parquet round trip through SimFS"],
    "simulated": ["storage for the parquet step (fault-free)"],
}
EXPECTED_PROBES = ["step_slice", "step_take", "step_mask", "step_concat",
                   "step_concat_slices_of_one_parent", "non_dyadic_coordinates",
                   "step_sindex_built_on_array", "rejected_ndarray_indexer_reused",
                   "iteration_over_more_than_2048_elements", "step_pickle",
                   "step_parquet", "step_series", "step_int", "invalid_request_checked",
                   "chain_depth_ge_3", "nonzero_offset_array", "take_ascending_with_repeats"]

OPS = ("int", "slice", "slice", "mask", "take", "take_fill", "concat", "concat_slices", "sindex", "copy", "iter", "series",
       "frame", "pickle", "parquet", "bad_int", "bad_take", "bad_mask")


def cases(tier, base_seed):
    i = 0
    while True:
        seed = mix(base_seed, i)
        rng = random.Random(seed)
        kind = rng.choice(models.KINDS)
        subtype = rng.choice(gen.SUBTYPES)
        n = rng.choice((0, 1, 2, 5, 9, 14, 20))
        values = gen.gen_values(rng, kind, n, 0.2, 0.12, subtype)
        tenths = subtype.startswith("float") and rng.random() < 0.3
        if tenths:
            # coordinates that are not dyadic: sums and products round, so a quantity that
            # secretly depends on what else shares the buffer shows in the last bits (every
            # oracle here compares the library with itself on the same element values)
            values = gen.to_tenths(rng, values, f32=(subtype == "float32"))
        steps = []
        for _ in range(rng.randint(3, 30 if tier != "quick" else 18)):
            op = rng.choice(OPS)
            st = {"op": op, "src": rng.getrandbits(16), "src2": rng.getrandbits(16),
                  "a": rng.randint(-25, 25), "b": rng.randint(-25, 25),
                  "step": rng.choice((None, 1, 2, 3, -1, -2)),
                  "bits": rng.getrandbits(24), "k": rng.randint(0, 8),
                  "idx": [rng.randint(-22, 22) for _ in range(rng.randint(0, 7))],
                  "box": gen.gen_box(rng), "p": rng.choice((1, 4, 10, 15))}
            steps.append(st)
        shape = rng.choice(("polygon", "line", "multipoint", "multipolygon", "point"))
        yield {"seed": seed, "kind": kind, "subtype": subtype, "values": values, "steps": steps,
               "tenths": tenths,
               "shape": {"kind": shape, "value": gen.gen_element(rng, shape)}}
        i += 1


def warmup():
    k = 0
    for c in cases("quick", 161616):
        run_case(c)
        k += 1
        if k >= 4:
            break


class Bad(Exception):
    def __init__(self, cls, msg):
        super().__init__(msg)
        self.cls, self.msg = cls, msg


def _norm_index(i, n):
    return i + n if i < 0 else i


def run_case(case):
    case = {k: v for k, v in case.items() if k != "_truth"}
    kind, subtype = case["kind"], case["subtype"]
    probes, sig = {}, {"kind": kind, "subtype": subtype}
    if case.get("tenths"):
        probes["non_dyadic_coordinates"] = 1
    done = []
    bad = None
    seed = case["seed"]
    sim = e1.new_sim(seed, {"workers": 1, "strategy": "inorder", "switch_p": 0.0})
    with seams.scratch(f"c16-{seed}") as root:
        store, fs = e1.new_store(sim, root, {"atomic_close": False, "refresh": False,
                                             "shuffle_ls": True, "latency": 0.001})
        try:
            with seams.installed(sim, store, scheduler=False):
                _drive(case, root, fs, probes, sig, done)
        except HarnessError:
            raise
        except Bad as b:
            bad = (b.cls, b.msg)
    digest = hashlib.sha256(json.dumps([kind, subtype, case["values"], done],
                                       default=str).encode()).hexdigest()[:16]
    st = {"events": len(done), "switches": 0, "sim_time": sim.now, "tasks": 0}
    if bad:
        return result(False, bad[0], bad[1], sig, digest, True, probes, **st)
    return result(True, digest=digest, nontrivial=len(done) >= 3, probes=probes, **st)


def _drive(case, root, fs, probes, sig, done):
    from spatialpandas import GeoDataFrame, GeoSeries
    from spatialpandas.io import read_parquet, to_parquet
    kind, subtype = case["kind"], case["subtype"]
    src = gen.build_array(kind, case["values"], subtype)
    pool = [(src, list(case["values"]), 0)]
    _check(pool[0][0], pool[0][1], case, "source", sig, probes, case["steps"][0] if case["steps"]
           else {"box": [0, 0, 1, 1], "p": 4})
    shape_arr = gen.build_array(case["shape"]["kind"], [case["shape"]["value"]])
    for si, st in enumerate(case["steps"]):
        op = st["op"]
        arr, mod, depth = pool[st["src"] % len(pool)]
        n = len(mod)
        sig["op"] = op
        sig["depth"] = depth
        new = None
        if op == "int":
            if n == 0:
                continue
            i = st["a"] % (2 * n) - n            # in [-n, n)
            el = _guard(f"getitem[{i}]", lambda: arr[i], sig)
            want = mod[_norm_index(i, n)]
            got = None if el is None else models.array_values(
                gen.array_class(kind)([el], dtype=arr.dtype))[0]
            if not models.values_equal(got, want):
                raise Bad("element-mismatch@int", f"arr[{i}] = {got}, model {want}")
            probes["step_int"] = 1
            done.append(("int", i))
            continue
        if op == "bad_int":
            i = n + abs(st["a"])
            for j in (i, -i - 1):
                _expect(lambda j=j: arr[j], IndexError, f"arr[{j}] on length {n}", sig)
            probes["invalid_request_checked"] = 1
            done.append(("bad_int", i))
            continue
        if op == "bad_take":
            _expect(lambda: arr.take([0, n + 3]), IndexError, f"take out of bounds on length {n}", sig)
            if n > 0:
                # an ndarray indexer that this array rejects is still the caller's: it must be
                # unchanged afterwards and select the same rows wherever it is valid
                src_arr, src_mod, _ = pool[0]
                m = len(src_mod)
                if m > n:
                    idx = np.array([-(n + 1), 0, -m], dtype=np.int64)
                    keep = idx.copy()
                    _expect(lambda: arr.take(idx), IndexError, "take below -len (ndarray)", sig)
                    if not np.array_equal(idx, keep):
                        raise Bad("indexer-mutated@take", f"a rejected take changed the caller's "
                                  f"indexer from {keep.tolist()} to {idx.tolist()}")
                    got = _guard("take with the same indexer on the source",
                                 lambda: src_arr.take(idx), sig)
                    _check(got, [src_mod[j] for j in keep.tolist()], case, "take-after-rejected",
                           sig, probes, st, shape_arr)
                    probes["rejected_ndarray_indexer_reused"] = 1
            if n > 0:
                _expect(lambda: arr.take([-n - 2], allow_fill=False), IndexError,
                        "take below -len", sig)
                _expect(lambda: arr.take([-2], allow_fill=True), ValueError,
                        "take(-2, allow_fill=True)", sig)
            probes["invalid_request_checked"] = 1
            done.append(("bad_take",))
            continue
        if op == "bad_mask":
            _expect(lambda: arr[np.ones(n + 1, dtype=bool)], IndexError,
                    f"mask of length {n + 1} on length {n}", sig)
            probes["invalid_request_checked"] = 1
            done.append(("bad_mask",))
            continue
        if op == "slice":
            a = st["a"] if st["bits"] & 1 else None
            b = st["b"] if st["bits"] & 2 else None
            sl = slice(a, b, st["step"])
            new = _guard(f"getitem[{sl}]", lambda: arr[sl], sig)
            newmod = mod[sl]
            probes["step_slice"] = 1
            done.append(("slice", a, b, st["step"]))
        elif op == "mask":
            m = [bool((st["bits"] >> (j % 24)) & 1) for j in range(n)]
            new = _guard("getitem[mask]", lambda: arr[np.array(m, dtype=bool)], sig)
            newmod = [v for v, keep in zip(mod, m) if keep]
            probes["step_mask"] = 1
            done.append(("mask", m))
        elif op == "take":
            if n == 0:
                continue
            idx = [j % (2 * n) - n for j in st["idx"]]
            if st["bits"] & 4:
                # ascending positions from a narrow range: repeats and small gaps
                # (contiguous-run shortcuts must not mistake these for a slice)
                w = min(n, len(st["idx"]) + 1)
                base = (st["a"] % n) if n else 0
                idx = sorted(min(n - 1, base + (j % w)) for j in st["idx"])
                probes["take_ascending_with_repeats"] = 1
            new = _guard(f"take({idx})", lambda: arr.take(idx), sig)
            newmod = [mod[_norm_index(j, n)] for j in idx]
            probes["step_take"] = 1
            done.append(("take", idx))
        elif op == "take_fill":
            idx = [(j % (n + 1)) - 1 for j in st["idx"]] if n else [-1 for _ in st["idx"]]
            new = _guard(f"take({idx}, allow_fill=True)",
                         lambda: arr.take(idx, allow_fill=True), sig)
            newmod = [None if j == -1 else mod[j] for j in idx]
            probes["step_take"] = 1
            done.append(("take_fill", idx))
        elif op == "concat":
            arr2, mod2, d2 = pool[st["src2"] % len(pool)]
            new = _guard("_concat_same_type",
                         lambda: type(arr)._concat_same_type([arr, arr2]), sig)
            newmod = mod + mod2
            depth = max(depth, d2)
            probes["step_concat"] = 1
            done.append(("concat", len(mod), len(mod2)))
        elif op == "concat_slices":
            # several step-1 slices of ONE parent (they share its buffers), concatenated in
            # another order, with a gap or a piece repeated: what pd.concat / groupby / Dask's
            # shuffle hand to _concat_same_type
            if n < 3:
                continue
            cuts = sorted({abs(j) % (n + 1) for j in st["idx"]} | {0, n})
            pieces = [(a, b) for a, b in zip(cuts, cuts[1:])]
            if len(pieces) < 3:
                continue
            r = random.Random(st["bits"])
            mode = st["bits"] % 4
            order = list(range(len(pieces)))
            if mode == 0:
                mid = order[1:-1]
                r.shuffle(mid)
                order = [order[0]] + mid + [order[-1]]       # ends in place, middle permuted
            elif mode == 1:
                r.shuffle(order)
            elif mode == 2:
                order[r.randrange(1, len(order))] = order[0]  # one piece twice, one left out
            else:
                del order[r.randrange(len(order))]
            chosen = [pieces[j] for j in order]
            parts = [arr[a:b] for a, b in chosen]
            new = _guard(f"_concat_same_type(slices {chosen} of one parent)",
                         lambda: type(arr)._concat_same_type(parts), sig)
            newmod = [v for a, b in chosen for v in mod[a:b]]
            probes["step_concat_slices_of_one_parent"] = 1
            done.append(("concat_slices", chosen))
        elif op == "copy":
            new = _guard("copy", lambda: arr.copy(), sig)
            newmod = list(mod)
            done.append(("copy",))
        elif op == "iter" and st["bits"] & 8 and 0 < n:
            # iteration over a LONG array (block-wise conversions have their own boundaries)
            reps = 2100 // n + 1
            pos = list(range(n)) * reps
            long_arr = _guard("take (tile)", lambda: arr.take(pos), sig)
            els = _guard("iter (long array)", lambda: list(long_arr), sig)
            if len(els) != len(pos):
                raise Bad("length@iter", f"iterating an array of {len(pos)} elements yielded "
                          f"{len(els)}")
            kcls = gen.array_class(kind)
            for j in (0, 1023, 1024, 2047, 2048, len(pos) - 1):
                e = els[j]
                gotv = None if e is None else models.array_values(kcls([e], dtype=arr.dtype))[0]
                if not models.values_equal(gotv, mod[pos[j]]):
                    raise Bad("element-mismatch@iter", f"element {j} of a long iteration is "
                              f"{gotv}, model {mod[pos[j]]}")
            probes["iteration_over_more_than_2048_elements"] = 1
            done.append(("iter_long", len(pos)))
            continue
        elif op == "iter":
            els = _guard("iter", lambda: list(arr), sig)
            new = _guard("from elements", lambda: gen.array_class(kind)(els, dtype=arr.dtype)
                         if els else arr[:0], sig)
            newmod = list(mod)
            done.append(("iter",))
        elif op == "series":
            s = GeoSeries(arr, index=[f"r{j}" for j in range(n)])
            if st["bits"] & 1 and n:
                pos = [j % n for j in st["idx"]]
                if st["bits"] & 4:
                    w = min(n, len(st["idx"]) + 1)
                    pos = sorted(min(n - 1, (st["a"] % n) + (j % w)) for j in st["idx"])
                sub = _guard("series.iloc", lambda: s.iloc[pos], sig)
                newmod = [mod[j] for j in pos]
            elif st["bits"] & 2 and n:
                labs = [f"r{j % n}" for j in st["idx"]]
                sub = _guard("series.loc", lambda: s.loc[labs], sig)
                newmod = [mod[int(l[1:])] for l in labs]
            else:
                m = [bool((st["bits"] >> (j % 24)) & 1) for j in range(n)]
                sub = _guard("series[mask]", lambda: s[np.array(m, dtype=bool)], sig)
                newmod = [v for v, keep in zip(mod, m) if keep]
            if not isinstance(sub, GeoSeries):
                raise Bad("type@series", f"row selection of a GeoSeries gave {type(sub).__name__}")
            new = sub.array
            probes["step_series"] = 1
            done.append(("series", st["bits"] & 3))
        elif op == "frame":
            df = GeoDataFrame({"g": arr, "v": list(range(n))})
            a, b = sorted((st["a"] % (n + 1), st["b"] % (n + 1)))
            sub = _guard("frame.iloc", lambda: df.iloc[a:b], sig)
            new = sub["g"].array
            newmod = mod[a:b]
            probes["step_series"] = 1
            done.append(("frame", a, b))
        elif op == "sindex":
            # a spatial index built on this very array object (what a cx query through a
            # Series does as a side effect): every quantity must stay what it was
            _guard("build_sindex", lambda: arr.build_sindex(p=st["p"]) if st["bits"] & 1
                   else arr.sindex, sig)
            probes["step_sindex_built_on_array"] = 1
            done.append(("sindex", st["bits"] & 1))
            _check(arr, mod, case, op, sig, probes, st, shape_arr)
            continue
        elif op == "pickle":
            new = _guard("pickle", lambda: pickle.loads(pickle.dumps(arr)), sig)
            newmod = list(mod)
            probes["step_pickle"] = 1
            done.append(("pickle",))
        elif op == "parquet":
            if n == 0:
                continue
            df = GeoDataFrame({"g": arr, "v": list(range(n))})
            path = os.path.join(root, f"s{si}.parquet")
            _guard("to_parquet", lambda: to_parquet(df, path, filesystem=fs), sig)
            back = _guard("read_parquet", lambda: read_parquet(path, filesystem=fs), sig)
            new = back["g"].array
            newmod = list(mod)
            probes["step_parquet"] = 1
            done.append(("parquet",))
        if new is None:
            continue
        if type(new) is not type(src):
            raise Bad(f"type@{op}", f"{op} gave {type(new).__name__} from {type(src).__name__}")
        if getattr(new.data, "offset", 0):
            probes["nonzero_offset_array"] = 1
        depth += 1
        if depth >= 3:
            probes["chain_depth_ge_3"] = 1
        _check(new, newmod, case, op, sig, probes, st, shape_arr)
        if depth < 6:
            pool.append((new, newmod, depth))
            if len(pool) > 8:
                del pool[1]


def _guard(what, fn, sig):
    try:
        return fn()
    except (HarnessError, Bad):
        raise
    except Exception as e:  # noqa: BLE001
        import traceback
        tb = traceback.extract_tb(e.__traceback__)
        where = next((f"{os.path.basename(f.filename)}:{f.name}" for f in reversed(tb)
                      if seams.SP_DIR in f.filename), "?")
        sig["where"] = where
        raise Bad(f"exception@{where}", f"{what} raised {type(e).__name__}: {str(e)[:200]} "
                  f"(in {where})") from None


def _expect(fn, exc_type, what, sig):
    try:
        fn()
    except exc_type:
        return
    except (HarnessError, Bad):
        raise
    except Exception as e:  # noqa: BLE001
        raise Bad("wrong-exception", f"{what}: raised {type(e).__name__}, pandas expects "
                  f"{exc_type.__name__}") from None
    raise Bad("missing-exception", f"{what}: no exception, pandas expects {exc_type.__name__}")


def _quant(arr, st, shape_arr):
    """Derived quantities as plain comparable values (or ('exc', type) per quantity)."""
    out = {}

    def q(name, fn):
        try:
            out[name] = fn()
        except (HarnessError, Bad):
            raise
        except Exception as e:  # noqa: BLE001
            out[name] = ("exc", type(e).__name__, str(e)[:100])
    box = tuple(st["box"])
    q("bounds", lambda: e2.np_rows(arr.bounds))
    q("total_bounds", lambda: tuple(models.freeze(float(v)) for v in arr.total_bounds))
    q("length", lambda: [models.freeze(float(v)) for v in arr.length])
    q("area", lambda: [models.freeze(float(v)) for v in arr.area])
    q("intersects_bounds", lambda: [bool(v) for v in arr.intersects_bounds(box)])
    # the same rectangle named by its other two corners
    q("intersects_bounds_corners_swapped",
      lambda: [bool(v) for v in arr.intersects_bounds((box[2], box[3], box[0], box[1]))])
    if len(arr) > 1:
        inds = np.arange(len(arr))[::2]
        q("intersects_bounds_inds", lambda: [bool(v) for v in arr.intersects_bounds(box, inds)])
    q("hilbert_distance", lambda: [int(v) for v in arr.hilbert_distance(
        total_bounds=(0.0, 0.0, 16.0, 16.0), p=st["p"])])
    if models.kind_of(arr) == "point" and shape_arr is not None:
        shape = shape_arr[0]
        q("intersects_shape", lambda: [bool(v) for v in arr.intersects(shape)])
    return out


def _check(arr, mod, case, op, sig, probes, st, shape_arr=None):
    kind, subtype = case["kind"], case["subtype"]
    if len(arr) != len(mod):
        raise Bad(f"length@{op}", f"after {op}: len {len(arr)}, model {len(mod)}")
    isna = [bool(v) for v in arr.isna()]
    if isna != [v is None for v in mod]:
        raise Bad(f"isna@{op}", f"after {op}: isna {isna}, model {[v is None for v in mod]}")
    vals = models.array_values(arr)
    for j, (a, b) in enumerate(zip(vals, mod)):
        if not models.values_equal(a, b):
            raise Bad(f"element-mismatch@{op}", f"after {op}: element {j} is {a}, model {b}")
    if arr.numpy_dtype.name != subtype and len(mod):
        raise Bad(f"subtype@{op}", f"after {op}: subtype {arr.numpy_dtype.name}, source {subtype}")
    fresh = gen.build_array(kind, mod, subtype)
    qa, qf = _quant(arr, st, shape_arr), _quant(fresh, st, shape_arr)
    for name in qf:
        a, f = qa[name], qf[name]
        f_exc = isinstance(f, tuple) and f and f[0] == "exc"
        a_exc = isinstance(a, tuple) and a and a[0] == "exc"
        if f_exc:
            probes["not_comparable_fresh_twin_raises"] = probes.get(
                "not_comparable_fresh_twin_raises", 0) + 1
            continue
        if a_exc:
            sig["quantity"] = name
            raise Bad(f"derived-raises@{name}", f"after {op}: {name} raises {a[1]}: {a[2]} on the "
                      f"derived array but not on a fresh array of the same elements")
        if a != f:
            sig["quantity"] = name
            raise Bad(f"derived-differs@{name}", f"after {op}: {name} on the derived array "
                      f"{str(a)[:160]} != on a fresh array of the same elements {str(f)[:160]}")
    # element-wise quantities must equal the *selection* of the source's quantities, i.e.
    # depend on the element's own value only - not on its neighbours or its position.
    # The per-element truth is the quantity of a one-element fresh array (cached per value).
    truth = case.setdefault("_truth", {})
    for j, v in enumerate(mod):
        key = (repr(models.freeze(v)), tuple(st["box"]), st["p"])
        if key not in truth:
            one = gen.build_array(kind, [v], subtype)
            truth[key] = _quant(one, st, shape_arr)
        t = truth[key]
        for name in ("bounds", "length", "area", "intersects_bounds", "hilbert_distance",
                     "intersects_shape"):
            if name not in qa or name not in t:
                continue
            tv, av = t[name], qa[name]
            if (isinstance(tv, tuple) and tv and tv[0] == "exc") or \
                    (isinstance(av, tuple) and av and av[0] == "exc"):
                continue
            if av[j] != tv[0]:
                sig["quantity"] = name
                raise Bad(f"neighbour-dependent@{name}",
                          f"after {op}: {name} of element {j} ({str(v)[:80]}) is {av[j]} inside the "
                          f"array but {tv[0]} for the same element on its own")


def sample(case, res):
    return {"seed": case["seed"], "kind": case["kind"], "subtype": case["subtype"],
            "source_elements": len(case["values"]),
            "steps": [(s["op"], s["a"], s["b"], s["step"]) for s in case["steps"][:12]],
            "successful_steps": res["events"], "digest": res["digest"]}


def shrink_candidates(case):
    c = case
    n = len(c["steps"])
    size = n // 2
    while size >= 1:
        for s in range(0, n, size):
            d = copy.deepcopy(c)
            del d["steps"][s:s + size]
            if d["steps"]:
                yield d
        size //= 2
    m = len(c["values"])
    for k in (m // 2, m - 1):
        if 1 <= k < m:
            d = copy.deepcopy(c)
            d["values"] = c["values"][:k]
            yield d
    if c["subtype"] != "float64":
        d = copy.deepcopy(c)
        d["subtype"] = "float64"
        yield d
