"""C11 - parquet round trips are lossless for every geometry type.
Engine E3: the parquet files are a store; histories of writes (pandas writer, Dask
writer) and reads (read_parquet, read_parquet_dask of a path / list / glob, with column
projections) run on SimFS under the simulated executor; oracle = a map path -> rows."""
from __future__ import annotations

import copy
import os
import random

from .. import e1, e3, gen, models, seams
from ..core import HarnessError
from ..runner import mix, result

PROP = "C11"
LEVEL = "exploration"
RULE = ("one case = a frame spec (1-3 geometry columns of any of the 7 kinds x 5 coordinate "
        "subtypes, plain / sliced / concatenated backing arrays, missing and empty elements, one of "
        "five index kinds) + a history of 2-3 writes (to_parquet, DaskGeoDataFrame.to_parquet with "
        "1..12 partitions, 3 compressions) and 2-5 reads (read_parquet, read_parquet_dask of one "
        "path / a list / a glob, optional columns=), drawn from splitmix64(VERIF_SEED, run index) and "
        "executed on SimFS (permuted listings, atomic or progressive writes) under the simulated "
        "executor. Non-trivial: >= 1 Dask write or read with >= 1 context switch; distinct = distinct "
        "event-log digests.")
ASSUMPTIONS = [
    "the type x subtype sweep is input variation; what the simulator adds is the store view: "
    "several datasets side by side, read in any listing order by any task schedule",
    "reads are compared with a row-level model: order, every geometry element (nested lists), "
    "geometry kind and coordinate subtype per column, other values by value, index values and name",
    "storage never fails here (faults are C19)",
]
COMPONENTS = {
    "real": ["spatialpandas.io (from /repo)", "pandas.to_parquet", "dask.dataframe.to_parquet / "
             "read_parquet meta", "pyarrow parquet + dataset discovery", "fsspec base class"],
    "simulated": ["Dask executor", "storage (SimFS): listing order, latency, store mode", "uuid4"],
}
EXPECTED_PROBES = ["write_pandas", "write_dask", "read_pandas", "read_dask", "read_dask_list",
                   "read_dask_list_unsorted", "read_dask_list_mixing_glob_and_path",
                   "twin_slices_of_one_parent_array",
                   "read_dask_glob", "columns_projection", "nonfloat64_subtype",
                   "sliced_or_concat_backing", "ge_11_partitions",
                   "dataset_written_again_at_same_path", "dataset_written_from_a_frame_read_back",
                   "earlier_lazy_read_computed_again",
                   "read_dask_list_of_pandas_file_and_dask_dataset",
                   "sibling_file_same_fields_other_index_kind",
                   "read_dask_list_naming_a_dataset_twice",
                   "read_dask_glob_matching_underscore_directory"]


def cases(tier, base_seed):
    i = 0
    while True:
        seed = mix(base_seed, i)
        rng = random.Random(seed)
        n = rng.choice((1, 2, 4, 8, 14, 24, 30))
        spec = e3.gen_store_frame(rng, n)
        half = n // 2
        steps = []
        # datasets: P = pandas writer (all rows); D0/D1 = dask writer (two row ranges)
        comp = lambda: rng.choice(("snappy", "gzip", None))  # noqa: E731
        steps.append({"op": "write_pandas", "ds": "P", "rows": list(range(n)), "compression": comp()})
        split = rng.random() < 0.6 and n >= 2
        r0 = list(range(half)) if split else list(range(n))
        steps.append({"op": "write_dask", "ds": "D0", "rows": r0,
                      "nparts": rng.choice((1, 2, 3, 5, 11, 12)), "compression": comp()})
        if split:
            steps.append({"op": "write_dask", "ds": "D1", "rows": list(range(half, n)),
                          "nparts": rng.choice((1, 2, 3, 12)), "compression": comp()})
        if split and rng.random() < 0.3:
            # a dataset whose directory name starts with an underscore, inside a wider glob
            steps.append({"op": "write_dask", "ds": "D4", "rows": list(range(min(2, n))),
                          "nparts": 1, "compression": comp()})
            steps.append({"op": "read_dask", "how": "glob_all", "ds": ["D4", "D0", "D1"],
                          "columns": None})
        if split:
            # a third dataset outside the glob pattern, for lists mixing a glob and a path
            steps.append({"op": "write_dask", "ds": "D2", "rows": list(range(min(3, n))),
                          "nparts": rng.choice((1, 2)), "compression": comp()})
        names = [c["name"] for c in spec["cols"]]

        def proj():
            if rng.random() < 0.5:
                return None
            cols = [rng.choice(names)] + [c for c in spec["order"] if rng.random() < 0.4]
            out = []
            for c in cols:
                if c not in out:
                    out.append(c)
            rng.shuffle(out)
            return out
        for _ in range(rng.randint(2, 5)):
            r = rng.random()
            if r < 0.3:
                steps.append({"op": "read_pandas", "ds": "P", "columns": proj()})
            elif r < 0.6 or not split:
                steps.append({"op": "read_dask", "how": "path", "ds": [rng.choice(
                    ["D0", "D1"] if split else ["D0"])], "columns": proj()})
            elif r < 0.8:
                steps.append({"op": "read_dask", "how": "list",
                              "ds": rng.choice((["D0", "D1"], ["D1", "D0"])),
                              "columns": proj()})
            elif r < 0.85:
                steps.append({"op": "read_dask", "how": "glob", "ds": ["D0", "D1"],
                              "columns": proj()})
            elif r < 0.93:
                # a file written by the pandas writer and a dataset written by the Dask writer
                # in one read (they store a default / unnamed index differently)
                steps.append({"op": "read_dask", "how": "writers",
                              "ds": rng.choice((["P", "D0"], ["D0", "P"])), "columns": proj()})
            elif r < 0.97:
                steps.append({"op": "read_dask", "how": "mixed", "ds": ["D0", "D1", "D2"],
                              "glob_first": rng.random() < 0.5, "columns": proj()})
            else:
                # a list naming one dataset explicitly AND through a glob that matches it
                # again: every entry of the list is read, in the order given
                steps.append({"op": "read_dask", "how": "overlap", "ds": ["D0", "D1"],
                              "glob_first": rng.random() < 0.5, "columns": proj()})
        if spec["index"].get("name") and spec["index"]["name"] not in spec["order"] \
                and rng.random() < 0.3:
            # a sibling file with the SAME stored fields but another index kind: the index
            # written as the last ordinary column under a default index; the two files are
            # read one after the other with the same projection, in both orders
            steps.append({"op": "write_sibling", "compression": comp()})
            for _ in range(2):
                pr = proj() or [rng.choice(names)]
                first = rng.random() < 0.5
                for which in (("P", "S") if first else ("S", "P")):
                    steps.append({"op": "read_pandas" if which == "P" else "read_sibling",
                                  "ds": which, "columns": list(pr), "twice": False})
        if rng.random() < 0.35:
            # second phase: datasets written AGAIN at the same paths (other rows, other
            # partition count) after they were read, a dataset written from a frame that
            # was itself read back, and more reads - what is read is always the latest write
            for _ in range(rng.randint(1, 3)):
                r = rng.random()
                if r < 0.3:
                    rows = list(range(n))
                    rng.shuffle(rows)
                    steps.append({"op": "write_pandas", "ds": "P", "again": True,
                                  "rows": rows[: rng.randint(1, n)], "compression": comp()})
                    steps.append({"op": "read_pandas", "ds": "P", "columns": proj()})
                elif r < 0.7:
                    rows = list(range(n))
                    rng.shuffle(rows)
                    steps.append({"op": "write_dask", "ds": "D0", "again": True,
                                  "rows": rows[: rng.randint(1, n)],
                                  "nparts": rng.choice((1, 2, 3, 5)), "compression": comp()})
                    steps.append({"op": "read_dask", "how": "path", "ds": ["D0"],
                                  "columns": proj()})
                else:
                    steps.append({"op": "copy_dask", "src": "D0", "ds": "D3",
                                  "compression": comp()})
                    steps.append({"op": "read_dask", "how": "path", "ds": ["D3"],
                                  "columns": proj()})
        twins = None
        if n >= 4 and rng.random() < 0.2:
            # two frames whose geometry columns are equally long slices of ONE parent array,
            # equal in everything else, both alive as Dask frames at the same time
            twins = {"k": rng.randint(1, n // 2)}
        yield {"seed": seed, "frame": spec, "steps": steps, "twins": twins,
               "sim": e1.gen_sim_cfg(rng), "store": e1.gen_store_cfg(rng)}
        i += 1


def warmup():
    k = 0
    for c in cases("quick", 9911):
        if c["frame"]["n"] >= 4:
            run_case(c)
            k += 1
        if k >= 2:
            break


class Bad(Exception):
    def __init__(self, cls, msg):
        super().__init__(msg)
        self.cls, self.msg = cls, msg


def run_case(case):
    seed = case["seed"]
    sim = e1.new_sim(seed, case["sim"])
    probes, sig, bad = {}, {}, None
    spec = case["frame"]
    if any(c["subtype"] != "float64" for c in spec["cols"]):
        probes["nonfloat64_subtype"] = 1
    if any(c.get("backing") in ("sliced", "concat") for c in spec["cols"]):
        probes["sliced_or_concat_backing"] = 1
    with seams.scratch(f"c11-{seed}") as root:
        store, fs = e1.new_store(sim, root, case["store"])
        try:
            with seams.installed(sim, store):
                _drive(case, root, fs, probes, sig)
        except HarnessError:
            raise
        except Bad as b:
            bad = (b.cls, b.msg)
        st = {"events": sim.n_events, "switches": sim.switches, "sim_time": sim.now,
              "tasks": len(sim.tasks)}
        digest = sim.digest()
    if bad:
        return result(False, bad[0], bad[1], sig, digest, True, probes, **st)
    return result(True, digest=digest, nontrivial=sim.switches > 0, probes=probes, **st)


def _guard(what, fn, sig):
    try:
        return fn()
    except (HarnessError, Bad):
        raise
    except Exception as e:  # noqa: BLE001
        import traceback
        tb = traceback.extract_tb(e.__traceback__)
        where = next((f"{os.path.basename(f.filename)}:{f.name}" for f in reversed(tb)
                      if seams.SP_DIR in f.filename), "?")
        sig["where"] = where
        raise Bad(f"exception@{what}@{where}",
                  f"{what} raised {type(e).__name__}: {str(e)[:240]} (in {where})") from None


def _drive(case, root, fs, probes, sig):
    _drive_steps(case, root, fs, probes, sig)
    if case.get("twins"):
        _twins(case, root, fs, probes, sig)


def _drive_steps(case, root, fs, probes, sig):
    from spatialpandas import GeoDataFrame
    from spatialpandas.dask import DaskGeoDataFrame
    from spatialpandas.io import read_parquet, read_parquet_dask, to_parquet
    spec = case["frame"]
    os.makedirs(os.path.join(root, "pd"))
    os.makedirs(os.path.join(root, "dk"))
    model = {}
    os.makedirs(os.path.join(root, "dk2"))
    paths = {"P": os.path.join(root, "pd", "P.parquet"),
             "D0": os.path.join(root, "dk", "ds_0"), "D1": os.path.join(root, "dk", "ds_1"),
             "D2": os.path.join(root, "dk2", "extra"), "D3": os.path.join(root, "dk2", "copy"),
             "S": os.path.join(root, "pd", "S.parquet"), "D4": os.path.join(root, "dk", "_ds_9")}
    lazy = []        # (lazy frame, rows, columns, version of its dataset when it was read)
    version = {}
    for step in case["steps"]:
        op = step["op"]
        sig["op"] = op
        if step.get("again"):
            probes["dataset_written_again_at_same_path"] = 1
            sig["again"] = True
        if op == "write_pandas":
            probes["write_pandas"] = 1
            gdf = e3.build_store_frame(spec, step["rows"])
            _guard("to_parquet", lambda: to_parquet(gdf, paths["P"], filesystem=fs,
                                                    compression=step["compression"]), sig)
            model["P"] = step["rows"]
            version["P"] = version.get("P", 0) + 1
        elif op == "write_dask":
            probes["write_dask"] = 1
            if step["nparts"] >= 11:
                probes["ge_11_partitions"] = 1
            gdf = e3.build_store_frame(spec, step["rows"])
            if len(gdf) == 0:
                continue
            ddf = e3.make_ddf(gdf, {"mode": "even", "k": max(1, min(step["nparts"], len(gdf)))})
            over = {"overwrite": True} if step.get("again") else {}
            _guard("DaskGeoDataFrame.to_parquet",
                   lambda: ddf.to_parquet("simfs://" + paths[step["ds"]],
                                          compression=step["compression"], **over), sig)
            model[step["ds"]] = step["rows"]
            version[step["ds"]] = version.get(step["ds"], 0) + 1
        elif op == "copy_dask":
            if step["src"] not in model:
                continue
            probes["dataset_written_from_a_frame_read_back"] = 1
            src = _guard("read_parquet_dask", lambda: read_parquet_dask(
                paths[step["src"]], filesystem=fs), sig)
            _guard("DaskGeoDataFrame.to_parquet (of a frame read back)",
                   lambda: src.to_parquet("simfs://" + paths[step["ds"]],
                                          compression=step["compression"], overwrite=True), sig)
            model[step["ds"]] = list(model[step["src"]])
            version[step["ds"]] = version.get(step["ds"], 0) + 1
        elif op == "write_sibling":
            if "P" not in model or model["P"] != list(range(spec["n"])):
                continue
            iname = spec["index"]["name"]
            spec_s = copy.deepcopy(spec)
            spec_s["extra"][iname] = list(spec["index"]["values"])
            spec_s["order"] = list(spec["order"]) + [iname]
            spec_s["index"] = {"kind": "default"}
            gdf = e3.build_store_frame(spec_s, None)      # RangeIndex: no index column stored
            _guard("to_parquet (sibling)", lambda: to_parquet(
                gdf, paths["S"], filesystem=fs, compression=step["compression"]), sig)
            model["S"] = spec_s
            probes["sibling_file_same_fields_other_index_kind"] = 1
        elif op == "read_sibling":
            if "S" not in model:
                continue
            cols = step["columns"]
            got = _guard("read_parquet (sibling)", lambda: read_parquet(
                paths["S"], filesystem=fs, columns=cols), sig)
            _compare(got, model["S"], list(range(spec["n"])), cols, "read_parquet[sibling]",
                     GeoDataFrame, sig)
        elif op == "read_pandas":
            if "P" not in model:
                continue
            probes["read_pandas"] = 1
            cols = step["columns"]
            if cols:
                probes["columns_projection"] = 1
            given = list(cols) if cols else cols
            got = _guard("read_parquet", lambda: read_parquet(paths["P"], filesystem=fs,
                                                              columns=cols), sig)
            if cols != given:
                raise Bad("columns-argument-mutated", f"read_parquet changed the caller's columns "
                          f"list from {given} to {cols}")
            _compare(got, spec, model["P"], cols, "read_parquet", GeoDataFrame, sig)
            if cols and step.get("twice", True):
                # the same list object is used again (a caller-side constant)
                got = _guard("read_parquet (same columns list again)",
                             lambda: read_parquet(paths["P"], filesystem=fs, columns=cols), sig)
                _compare(got, spec, model["P"], given, "read_parquet[2nd]", GeoDataFrame, sig)
        elif op == "read_dask":
            dss = [d for d in step["ds"] if d in model]
            if not dss:
                continue
            cols = step["columns"]
            if cols:
                probes["columns_projection"] = 1
            if step["how"] == "path" or len(dss) == 1:
                arg = paths[dss[0]]
                dss = dss[:1]
                probes["read_dask"] = 1
            elif step["how"] == "mixed":
                if "D2" not in model or not {"D0", "D1"} <= set(model):
                    continue
                g = os.path.join(root, "dk", "ds_*")
                arg = [g, paths["D2"]] if step["glob_first"] else [paths["D2"], g]
                dss = ["D0", "D1", "D2"] if step["glob_first"] else ["D2", "D0", "D1"]
                probes["read_dask_list_mixing_glob_and_path"] = 1
            elif step["how"] == "overlap":
                if not {"D0", "D1"} <= set(model):
                    continue
                g = os.path.join(root, "dk", "ds_*")
                arg = [g, paths["D0"]] if step["glob_first"] else [paths["D0"], g]
                dss = ["D0", "D1", "D0"] if step["glob_first"] else ["D0", "D0", "D1"]
                probes["read_dask_list_naming_a_dataset_twice"] = 1
            elif step["how"] == "glob_all":
                if not {"D0", "D1", "D4"} <= set(model):
                    continue
                arg = os.path.join(root, "dk", "*ds_*")
                dss = ["D4", "D0", "D1"]          # sorted path order: '_ds_9' < 'ds_0' < 'ds_1'
                probes["read_dask_glob_matching_underscore_directory"] = 1
            elif step["how"] == "writers":
                arg = [paths[d] for d in dss]
                probes["read_dask_list_of_pandas_file_and_dask_dataset"] = 1
            elif step["how"] == "list":
                arg = [paths[d] for d in dss]
                probes["read_dask_list"] = 1
                if dss != sorted(dss):
                    probes["read_dask_list_unsorted"] = 1
            else:
                arg = os.path.join(root, "dk", "ds_*")
                probes["read_dask_glob"] = 1
            sig["how"] = step["how"]
            given = list(cols) if cols else cols
            ddf = _guard("read_parquet_dask",
                         lambda: read_parquet_dask(arg, filesystem=fs, columns=cols), sig)
            if not isinstance(ddf, DaskGeoDataFrame):
                raise Bad("type", f"read_parquet_dask returned {type(ddf).__name__}")
            got = _guard("read_parquet_dask.compute", lambda: ddf.compute(), sig)
            if cols != given:
                raise Bad("columns-argument-mutated", f"read_parquet_dask changed the caller's "
                          f"columns list from {given} to {cols}")
            # a list is read in the order given, a glob in sorted path order
            order = dss if step["how"] in ("list", "mixed", "writers", "overlap", "glob_all") \
                else sorted(dss)
            rows = [r for d in order for r in model[d]]
            _compare(got, spec, rows, cols, f"read_parquet_dask[{step['how']}]", GeoDataFrame, sig)
            lazy.append((ddf, rows, given, {d: version.get(d, 0) for d in dss}))
    # lazy frames read earlier and still alive: computing them again (now that other reads and
    # writes have happened) gives the same rows, unless their dataset was written again since
    for ddf, rows, cols, ver in lazy[:-1]:
        if any(version.get(d, 0) != v for d, v in ver.items()):
            continue
        probes["earlier_lazy_read_computed_again"] = 1
        sig["op"] = "recompute_earlier_read"
        got = _guard("compute of an earlier read", lambda: ddf.compute(), sig)
        _compare(got, spec, rows, cols, "read_parquet_dask[computed again later]", GeoDataFrame,
                 sig)


def _twins(case, root, fs, probes, sig):
    import dask.dataframe as dd
    from spatialpandas import GeoDataFrame
    from spatialpandas.io import read_parquet_dask
    spec = case["frame"]
    k = case["twins"]["k"]
    c = spec["cols"][0]
    parent = gen.build_array(c["kind"], c["values"][: 2 * k], c["subtype"])
    fa = GeoDataFrame({"g": parent[:k]})
    fb = GeoDataFrame({"g": parent[k:2 * k]})
    probes["twin_slices_of_one_parent_array"] = 1
    da = dd.from_pandas(fa, npartitions=1)
    db = dd.from_pandas(fb, npartitions=1)           # `da` is still alive here
    pa_, pb_ = os.path.join(root, "twin_a"), os.path.join(root, "twin_b")
    _guard("to_parquet (twin a)", lambda: da.to_parquet("simfs://" + pa_), sig)
    _guard("to_parquet (twin b)", lambda: db.to_parquet("simfs://" + pb_), sig)
    for path, lo, name in ((pa_, 0, "a"), (pb_, k, "b")):
        got = _guard("read_parquet_dask (twin)",
                     lambda: read_parquet_dask(path, filesystem=fs).compute(), sig)
        g = [models.freeze(v) for v in models.array_values(got["g"].array)]
        w = [models.freeze(v) for v in c["values"][lo:lo + k]]
        if g != w:
            raise Bad("rows@twin-slices", f"frame {name} (rows {lo}..{lo + k - 1} of one parent "
                      f"array) was written and read back as {g[:3]}, expected {w[:3]}")


def _compare(got, spec, rows, cols, what, geo_type, sig):
    if not isinstance(got, geo_type):
        raise Bad(f"type@{what}", f"{what} returned {type(got).__name__}, not a GeoDataFrame")
    want_cols = list(cols) if cols else list(spec["order"])
    if list(got.columns) != want_cols:
        raise Bad(f"columns@{what}", f"{what}: columns {list(got.columns)}, expected {want_cols}")
    types = e3.geometry_types(got)
    for c in spec["cols"]:
        if c["name"] in want_cols:
            t = types.get(c["name"])
            if t != (c["kind"], c["subtype"]):
                sig["kind"] = c["kind"]
                sig["subtype"] = c["subtype"]
                raise Bad(f"geometry-type@{what}", f"{what}: column {c['name']} came back as {t}, "
                          f"written as {(c['kind'], c['subtype'])}")
    exp = e3.expected_rows(spec, rows, want_cols)
    g = e3.frame_rows(got)
    if g != exp:
        k = next((i for i, (a, b) in enumerate(zip(g, exp)) if a != b), min(len(g), len(exp)))
        raise Bad(f"rows@{what}", f"{what}: {len(g)} rows, expected {len(exp)}; first difference at "
                  f"row {k}: got {g[k] if k < len(g) else None} expected "
                  f"{exp[k] if k < len(exp) else None}")
    want_name = spec["index"].get("name") if spec["index"]["kind"] != "default" else None
    if got.index.name != want_name:
        raise Bad(f"index-name@{what}", f"{what}: index name {got.index.name!r}, expected "
                  f"{want_name!r}")


def sample(case, res):
    f = case["frame"]
    return {"seed": case["seed"], "rows": f["n"], "index": f["index"]["kind"],
            "geometry_columns": [(c["name"], c["kind"], c["subtype"], c.get("backing"))
                                 for c in f["cols"]],
            "steps": [{k: v for k, v in s.items() if k != "rows"} for s in case["steps"]],
            "sim": case["sim"], "store": case["store"], "events": res["events"],
            "context_switches": res["switches"], "digest": res["digest"]}


def shrink_candidates(case):
    c = case
    ref = {"workers": 1, "strategy": "inorder", "switch_p": 0.0, "stall": False}
    if c["sim"] != ref:
        d = copy.deepcopy(c)
        d["sim"] = ref
        yield d
    reads = [i for i, s in enumerate(c["steps"]) if s["op"].startswith("read")]
    if len(reads) > 1:
        for i in reads:
            d = copy.deepcopy(c)
            del d["steps"][i]
            yield d
    for i, s in enumerate(c["steps"]):
        if s.get("columns"):
            d = copy.deepcopy(c)
            d["steps"][i]["columns"] = None
            yield d
        if s["op"] == "write_dask" and s["nparts"] > 1:
            d = copy.deepcopy(c)
            d["steps"][i]["nparts"] = 1
            yield d
    if len(c["frame"]["cols"]) > 1:
        for col in c["frame"]["cols"]:
            if col["name"] != c["frame"]["active"]:
                d = copy.deepcopy(c)
                d["frame"]["cols"] = [x for x in d["frame"]["cols"] if x["name"] != col["name"]]
                d["frame"]["order"] = [x for x in d["frame"]["order"] if x != col["name"]]
                for s in d["steps"]:
                    if s.get("columns"):
                        s["columns"] = [x for x in s["columns"] if x != col["name"]] or None
                yield d
    for col in c["frame"]["cols"]:
        if col.get("backing", "plain") != "plain":
            d = copy.deepcopy(c)
            for x in d["frame"]["cols"]:
                x["backing"] = "plain"
            yield d
            break
    if c["frame"]["index"]["kind"] != "default":
        d = copy.deepcopy(c)
        d["frame"]["index"] = {"kind": "default"}
        yield d
    # keep only the first k rows everywhere
    n = c["frame"]["n"]
    for k in (n // 2, n - 1):
        if 1 <= k < n:
            d = copy.deepcopy(c)
            d["frame"] = gen.shrink_spec_rows(c["frame"], list(range(k)))
            for col, old in zip(d["frame"]["cols"], c["frame"]["cols"]):
                col["backing"] = old.get("backing", "plain")
            for s in d["steps"]:
                if "rows" in s:
                    s["rows"] = [r for r in s["rows"] if r < k]
            yield d
