"""C19 - transient filesystem faults never yield a silently wrong packed dataset.
Engine E1 with the fault plan switched on.  Level: fault_enumeration.

Per configuration a fault-free baseline run on the reference schedule records the
sequence of fault points O_1..O_K and the reference dataset D*.  Then
  layer 1  every single fault (k, kind) with kind applicable to O_k   [exhaustive]
  layer 2  the same fault on r consecutive attempts of one operation (retry budget)
  layer 3  PRNG-sampled pairs / triples of faults (biased to land close together)
  layer 4  (thorough) random faults under random schedules with W > 1
Oracle: completed => stored dataset == D*; raised/crashed => a fault-free repeat with
overwrite=True on the surviving storage completes and == D*.
"""
from __future__ import annotations

import atexit
import copy
import json
import os
import random
import re
import shutil

from .. import e1, gen, seams, simfs
from ..core import HarnessError, SimCrash
from ..runner import mix, result

PROP = "C19"
LEVEL = "fault_enumeration"
EXHAUSTIVE = False
TIER_OVERRIDES = {"quick": {"budget": 90.0, "workers": 16}, "thorough": {"budget": 900.0, "workers": 16}}
RULE = ("per configuration (frame, partitioning, npartitions, temp-dir mode, store mode, refresh kw, "
        "retry budget) a fault-free baseline on the reference schedule fixes the fault points "
        "O_1..O_K (every SimFS call, write and close) and the reference dataset D*. Layer 1 "
        "enumerates every (k, kind) with kind in {EIO, ENOENT, AFTER, TORN, HALF, ENOSPC, VIS, DEL, "
        "STALE, CRASH} applicable to O_k; layer 2 repeats one fault r times on the same operation; layers 1 and 2 "
        "of all configurations are run in one seeded, stratified permutation (dealt round-robin from "
        "the (configuration, layer, kind) strata: any budget reaches every kind in every "
        "configuration, a long enough one is the full enumeration); layer 5 puts one fault, addressed by (operation, path), at every storage-changing "
        "operation under a seeded multi-worker schedule; layer 3 "
        "samples pairs/triples; layer 4 samples faults under random multi-worker schedules. A run is "
        "non-trivial when at least one fault fired; distinct = distinct (configuration, fault plan) "
        "event-log digests.")
ASSUMPTIONS = [
    "fault model of DESIGN.md 2.4: errors before/after the effect, torn writes, monotone "
    "visibility / deletion delays of metadata, sticky crash; reads of file contents are not faulted",
    "on a task exception the simulated executor drains in-flight tasks before re-raising "
    "(no zombie writers after the call returned)",
    "in ext_uuid temp mode the repeat run is not required to remove temp directories of the "
    "aborted run (it cannot know their uuid)",
    "the returned frame is not compared under faults (the property speaks of the dataset)",
]
COMPONENTS = {
    "real": ["spatialpandas (from /repo) incl. all nine retry wrappers with the library's default "
             "_retry_args unless the configuration says 'short'", "retrying", "dask graph "
             "construction", "pandas", "pyarrow parquet", "fsspec base class", "OS filesystem"],
    "simulated": ["Dask executor", "clock/sleep seen by retrying (virtual time)", "uuid4",
                  "storage faults, latency, listing order"],
}
EXPECTED_PROBES = ["retry_fired", "retry_budget_exhausted", "repeat_run_needed",
                   "crash_with_open_write", "not_yet_consistent_branch",
                   "retry_while_six_subparts_feed_one_partition"]

KINDS = ("EIO", "ENOENT", "AFTER", "TORN", "HALF", "ENOSPC", "VIS", "DEL", "STALE", "CRASH")
REF_SIM = {"workers": 1, "strategy": "inorder", "switch_p": 0.0, "stall": False}
SHORT_RETRY = {"wait_fixed": 50, "stop_max_attempt_number": 3}


def _frame_for(seed, n):
    rng = random.Random(seed)
    return gen.gen_frame_spec(rng, n, kinds=[rng.choice(("point", "multipoint", "line", "polygon"))],
                              index_kind="default", p_missing=0.15, p_empty=0.1)


def configs(tier, base_seed):
    """Deterministic list of configurations for the enumeration layers."""
    out = []
    if tier == "quick":
        # external temp dirs: with {uuid} for even seeds, without for odd ones (a repeat
        # then meets the leftovers of the aborted run under the same names)
        ext = "ext_uuid" if base_seed % 2 == 0 else "ext_plain"
        ext2 = "ext_plain" if base_seed % 2 == 0 else "ext_uuid"
        combos = [(ext, 9, False, True, "short", 2), ("inside", 3, True, False, "default", 2),
                  (ext2, 1, True, False, "default", 6)]
    else:
        combos = []
        for temp in e1.TEMP_MODES:
            for npart in (3, 9):
                for atomic in (True, False):
                    for refresh in (False, True):
                        for retry in ("default", "short"):
                            combos.append((temp, npart, atomic, refresh, retry, 2))
        # many input partitions feeding ONE output partition (six sub-parts to merge)
        j = 0
        for temp in e1.TEMP_MODES:
            for retry in ("default", "short"):
                combos.append((temp, 1, j % 2 == 0, (j // 2) % 2 == 1, retry, 6))
                j += 1
    for i, (temp, npart, atomic, refresh, retry, k_in) in enumerate(combos):
        fseed = mix(base_seed, 1000 + i)
        n = 8 if (tier != "quick" or k_in > 2) else 5
        parts = {"mode": "even", "k": 2} if k_in == 2 else \
            {"mode": "splits", "splits": [[0, 1], [2, 3], [4], [5], [6], [7]]}
        out.append({
            "frame": _frame_for(fseed, n),
            "parts": parts,
            "npartitions": npart, "p": 6, "tempdir": temp, "compression": "snappy",
            "store": {"atomic_close": atomic, "refresh": refresh, "shuffle_ls": False,
                      "latency": 0.005},
            "retry": retry,
            "prev": (i % 2 == 0),
        })
    return out


_BASE = {}
_TMPL = {}


def _prev_template(cfg):
    """A previous dataset (13 parts, other rows), written once per process by a fault-free
    simulation and copied into every run that starts with overwrite=True over it."""
    key = json.dumps(cfg["store"], sort_keys=True)
    if key not in _TMPL:
        base = os.path.join(seams.SCRATCH_BASE, f"spverif-tmpl-{os.getpid()}-{len(_TMPL)}")
        shutil.rmtree(base, ignore_errors=True)
        os.makedirs(base)
        atexit.register(shutil.rmtree, base, True)
        sim0 = e1.new_sim(4242, REF_SIM)
        st0, fs0 = e1.new_store(sim0, base, cfg["store"])
        with seams.installed(sim0, st0):
            pv = _frame_for(12345, 5)
            e1.do_pack(fs0, base, gen.build_frame(pv), {"mode": "even", "k": 1}, 13, 6,
                       "inside", "snappy", overwrite=False, tag="prev", compute=False)
        _TMPL[key] = os.path.join(base, "ds")
    return _TMPL[key]


def _cfg_key(cfg):
    return json.dumps(cfg, sort_keys=True, default=str)


def baseline(cfg):
    """Fault-free run on the reference schedule: (ops, D* fingerprint)."""
    key = _cfg_key(cfg)
    if key not in _BASE:
        r = _execute(cfg, {}, {}, REF_SIM, seed=1, want_ops=True)
        if r["outcome"] != "completed":
            raise HarnessError(f"C19 baseline did not complete: {r['outcome']} {r.get('exc')}")
        _BASE[key] = (r["ops"], r["fingerprint"], r["k_call"])
    return _BASE[key]


def _enumerated(tier, base_seed):
    """Layers 1 and 2 over every configuration, in ONE seeded permutation: whatever prefix the
    budget allows is a uniform sample of (configuration, fault point, kind) - early and late
    phases, every configuration - and a budget long enough makes it the full enumeration."""
    cfgs = configs(tier, base_seed)
    out = []
    # layer 1: exhaustive single faults
    for ci, cfg in enumerate(cfgs):
        ops, _, k_call = baseline(cfg)
        for (k, op, rel) in _thin(ops, tier):
            if k > k_call:
                break
            for kind in KINDS:
                if simfs.applicable(kind, op):
                    out.append({"layer": 1, "cfg": cfg, "plan": {str(k): [kind, None]},
                                "repeat": [], "sim": REF_SIM,
                                "seed": mix(base_seed, ci * 100000 + k)})
                    if kind == "STALE":
                        # an older view: the three latest entries of the directory are missing
                        out.append({"layer": 1, "cfg": cfg, "plan": {str(k): [kind, 3]},
                                    "repeat": [], "sim": REF_SIM,
                                    "seed": mix(base_seed, ci * 100000 + k)})
    n1 = len(out)
    # layer 2: repeated faults on one (op, path)
    for ci, cfg in enumerate(cfgs):
        ops, _, k_call = baseline(cfg)
        budget = 3 if cfg["retry"] == "short" else 24
        seen = set()
        for (k, op, rel) in ops:
            if k > k_call or (op, rel) in seen:
                continue
            seen.add((op, rel))
            for kind in ("EIO", "ENOENT", "AFTER"):
                if not simfs.applicable(kind, op):
                    continue
                for r in sorted({2, budget - 1, budget, budget + 1}):
                    if r < 2:
                        continue
                    out.append({"layer": 2, "cfg": cfg, "plan": {},
                                "repeat": [[op, rel, kind, r]], "sim": REF_SIM,
                                "seed": mix(base_seed, 7_000_000 + ci * 100000 + k * 10 + r)})
    n2 = len(out)
    # layer 5: one fault addressed by (operation, path) - not by position, which a different
    # task order would shift - at every storage-changing operation, while the tasks of the run
    # are spread over several workers: what the other tasks do during the retry wait
    for ci, cfg in enumerate(cfgs):
        if cfg["tempdir"] == "ext_uuid":
            continue                      # those paths carry the run's uuid
        ops, _, k_call = baseline(cfg)
        seen = set()
        for (k, op, rel) in ops:
            if k > k_call or (op, rel) in seen or op not in simfs.EFFECT_OPS:
                continue
            seen.add((op, rel))
            for kind in ("EIO", "AFTER"):
                if not simfs.applicable(kind, op):
                    continue
                seed = mix(base_seed, 9_000_000 + ci * 100000 + k * 10 + (kind == "AFTER"))
                r5 = random.Random(seed)
                out.append({"layer": 5, "cfg": cfg, "plan": {}, "repeat": [[op, rel, kind, 1]],
                            "sim": {"workers": r5.choice((2, 3, 4, 8)),
                                    "strategy": r5.choice(("random", "random", "pct")),
                                    "switch_p": r5.choice((0.3, 0.7)), "stall": False},
                            "seed": seed})
    ENUM_SIZE.update({"layer1": n1, "layer2": n2 - n1, "layer5": len(out) - n2})
    # stratified: shuffle inside each (configuration, layer, fault kind) stratum, then deal the
    # strata round-robin - rare kinds (a half-done move has a handful of positions, EIO has
    # hundreds) are all reached early, the rest of the budget goes to the large strata
    rng = random.Random(mix(base_seed, 424242))
    strata = {}
    for c in out:
        kind = c["repeat"][0][2] if c["repeat"] else next(iter(c["plan"].values()))[0]
        strata.setdefault((id(c["cfg"]), c["layer"], kind), []).append(c)
    groups = list(strata.values())
    for g in groups:
        rng.shuffle(g)
    rng.shuffle(groups)
    dealt = []
    i = 0
    while groups:
        groups = [g for g in groups if len(g) > i]
        dealt.extend(g[i] for g in groups)
        i += 1
    return dealt


ENUM_SIZE = {}


def _sampled(tier, base_seed):
    """Layers 3 and 4: pairs / triples of faults, biased to land at consecutive fault points
    and to start at an operation that changes the store (write, close, rename, delete)."""
    cfgs = configs(tier, base_seed)
    i = 0
    while True:
        seed = mix(base_seed, 50_000_000 + i)
        rng = random.Random(seed)
        cfg = cfgs[rng.randrange(len(cfgs))]
        ops, _, k_call = baseline(cfg)
        nf = rng.choice((2, 2, 2, 3))
        k1 = rng.randint(1, k_call)
        if rng.random() < 0.5:
            eff = [k for (k, op, _) in ops if k <= k_call and op in simfs.EFFECT_OPS | {"write"}]
            if eff:
                k1 = rng.choice(eff)
        plan = {}
        for j in range(nf):
            r = rng.random()
            k = k1 if j == 0 else (min(k_call, k1 + j) if r < 0.45 else
                                   min(k_call, k1 + rng.randint(1, 8)) if r < 0.75
                                   else rng.randint(1, k_call))
            op = ops[k - 1][1]
            kinds = [x for x in KINDS if simfs.applicable(x, op) and x != "CRASH"] or ["EIO"]
            plan[str(k)] = [rng.choice(kinds), rng.choice((None, None, 0.05, 5.0, 200.0))]
        layer4 = tier == "thorough" and rng.random() < 0.5
        sim = e1.gen_sim_cfg(rng) if layer4 else REF_SIM
        yield {"layer": 4 if layer4 else 3, "cfg": cfg, "plan": plan, "repeat": [], "sim": sim,
               "seed": seed}
        i += 1


def cases(tier, base_seed):
    """Enumeration layers with one sampled multi-fault case after every eight enumerated ones
    (so that even a short run sees fault *sequences*); the sampler continues alone afterwards."""
    sampler = _sampled(tier, base_seed)
    n = 0
    for c in _enumerated(tier, base_seed):
        yield c
        n += 1
        if n % 8 == 0:
            yield next(sampler)
    yield from sampler


def _thin(ops, tier):
    """Quick tier: of each run of consecutive write() calls on one file keep the first, the
    middle and the last (the thorough tier keeps every one)."""
    if tier != "quick":
        return ops
    out, run = [], []

    def flush():
        if len(run) > 3:
            out.extend([run[0], run[len(run) // 2], run[-1]])
        else:
            out.extend(run)
        run.clear()
    for o in ops:
        if o[1] == "write" and (not run or run[-1][2] == o[2]):
            run.append(o)
        else:
            flush()
            if o[1] == "write":
                run.append(o)
            else:
                out.append(o)
    flush()
    return out


def warmup():
    cfg = configs("quick", 987)[0]
    baseline(cfg)


def _execute(cfg, plan, repeat, simcfg, seed, want_ops=False):
    """One pack call (optionally preceded by a previous dataset) + classification."""
    spec = cfg["frame"]
    retry_args = SHORT_RETRY if cfg["retry"] == "short" else None
    with seams.scratch(f"c19-{seed}") as root:
        if cfg.get("prev"):
            shutil.copytree(_prev_template(cfg), os.path.join(root, "ds"))
        # on the reference schedule every run of a configuration uses the baseline's PRNG
        # seed: the seeded uuids (temp-dir name, Dask keys) - and so the order of the fault
        # points O_1..O_K - are then the same as in the baseline the plan refers to
        sim = e1.new_sim(1 if simcfg == REF_SIM else seed, simcfg)
        iplan = {int(k): tuple(v) for k, v in plan.items()}
        rep = {(op, rel): [kind, r] for op, rel, kind, r in repeat}
        store, fs = e1.new_store(sim, root, cfg["store"], plan=iplan, repeat=rep)
        if cfg.get("prev"):
            dsdir = os.path.join(root, "ds")
            names = sorted(os.listdir(dsdir), key=lambda f: (
                f.startswith("_"), int(e1.PART_RE.match(f).group(1)) if e1.PART_RE.match(f) else 0, f))
            store.note_preexisting([os.path.join(dsdir, f) for f in names])
        exc = None
        gdf = gen.build_frame(spec)
        try:
            with seams.installed(sim, store):
                e1.do_pack(fs, root, gdf, cfg["parts"], cfg["npartitions"], cfg["p"],
                           cfg["tempdir"], cfg["compression"], overwrite=True,
                           retry_args=retry_args, compute=False)
        except HarnessError:
            raise
        except SimCrash as e:
            exc = e
        except Exception as e:  # noqa: BLE001 - raising is an allowed outcome under faults
            exc = e
        outcome = "completed" if exc is None else ("crashed" if store.frozen or
                                                   isinstance(exc, SimCrash) else "raised")
        out = {"outcome": outcome, "exc": None if exc is None else
               f"{type(exc).__name__}: {str(exc)[:200]}",
               "sim": sim, "store": store, "k_call": store.opn,
               "open_writes_at_end": dict(store.open_writes_at_crash)}
        out["retried"] = sim.counters.get("retry_exc", 0)
        if want_ops:
            out["ops"] = list(store.ops)
        out["tree"] = e1.inspect_tree(root)
        if outcome == "completed":
            try:
                out["fingerprint"] = e1.dataset_fingerprint(e1.read_dataset(root))
            except HarnessError:
                raise
            except Exception as e:  # noqa: BLE001 - an unreadable dataset after a normal return
                out["fingerprint"] = json.dumps({"unreadable": f"{type(e).__name__}: "
                                                 f"{str(e)[-160:]}"})
        if outcome != "completed":
            # restart: fresh simulation and storage incarnation over the surviving tree
            sim2 = e1.new_sim(seed ^ 0x2222, REF_SIM)
            st2, fs2 = e1.new_store(sim2, root, cfg["store"])
            exc2 = None
            try:
                with seams.installed(sim2, st2):
                    e1.do_pack(fs2, root, gdf, cfg["parts"], cfg["npartitions"], cfg["p"],
                               cfg["tempdir"], cfg["compression"], overwrite=True,
                               retry_args=retry_args, compute=False, tag="again")
            except HarnessError:
                raise
            except Exception as e:  # noqa: BLE001
                exc2 = e
            out["repeat_exc"] = None if exc2 is None else f"{type(exc2).__name__}: {str(exc2)[:200]}"
            out["repeat_tree"] = e1.inspect_tree(root)
            if exc2 is None:
                try:
                    ds2 = e1.read_dataset(root)
                    if cfg["tempdir"] == "ext_uuid":
                        ds2["tree"]["tmp"] = []
                    out["repeat_fingerprint"] = e1.dataset_fingerprint(ds2)
                except HarnessError:
                    raise
                except Exception as e:  # noqa: BLE001
                    out["repeat_fingerprint"] = json.dumps({"unreadable": f"{type(e).__name__}: "
                                                            f"{str(e)[-160:]}"})
            out["sim2"] = sim2
        return out


_NUM = re.compile(r"\d+")


def _pclass(rel):
    if rel is None:
        return None
    rel = re.sub(r"[0-9a-f]{8}-[0-9a-f]{4}-[0-9a-f]{4}-[0-9a-f]{4}-[0-9a-f]{12}", "U", rel)
    return _NUM.sub("N", rel)


def run_case(case):
    cfg = case["cfg"]
    ops, dstar, k_call = baseline(cfg)
    r = _execute(cfg, case["plan"], case["repeat"], case["sim"], case["seed"])
    sim, store = r["sim"], r["store"]
    probes = {f"layer{case['layer']}_cases": 1}
    if cfg["parts"].get("mode") == "splits" and r["retried"]:
        probes["retry_while_six_subparts_feed_one_partition"] = 1
    if r["retried"]:
        probes["retry_fired"] = 1
    if r["outcome"] == "raised" and r["retried"]:
        probes["retry_budget_exhausted"] = 1
    if r["outcome"] != "completed":
        probes["repeat_run_needed"] = 1
    if r["outcome"] == "crashed" and r["open_writes_at_end"]:
        probes["crash_with_open_write"] = 1
    if sim.counters.get("not-yet-consistent"):
        probes["not_yet_consistent_branch"] = 1
    if sim.counters.get("deletion-not-complete"):
        probes["deletion_not_complete_branch"] = 1
    fired = dict(store.fired)
    if case["layer"] in (1, 2) and not sum(fired.values()):
        # the plan referred to a fault point that this run did not reach in the same way
        probes["planned_fault_did_not_fire"] = 1
    first = None
    for k in sorted(int(x) for x in case["plan"]):
        if k <= len(store.ops):
            first = (case["plan"][str(k)][0], store.ops[k - 1][1], _pclass(store.ops[k - 1][2]))
            break
    if first is None and case["repeat"]:
        op, rel, kind, _ = case["repeat"][0]
        first = (kind, op, _pclass(rel))
    sig = {"layer": case["layer"], "tempdir": cfg["tempdir"], "retry": cfg["retry"],
           "atomic_close": cfg["store"]["atomic_close"], "outcome": r["outcome"]}
    if first:
        sig.update({"kind": first[0], "op": first[1], "path": first[2]})
    st = {"events": sim.n_events, "switches": sim.switches, "sim_time": sim.now,
          "tasks": len(sim.tasks), "faults": fired}
    digest = sim.digest()
    nontrivial = sum(v for v in fired.values()) > 0
    if r["outcome"] == "completed":
        if r["fingerprint"] != dstar:
            return result(False, "silent-wrong-dataset",
                          f"call returned normally under faults {case['plan'] or case['repeat']} "
                          f"but the stored dataset differs from the fault-free one: "
                          f"{_diff(dstar, r['fingerprint'])}", sig, digest, True, probes,
                          outcome="completed", **st)
        return result(True, digest=digest, nontrivial=nontrivial, probes=probes,
                      outcome="completed", **st)
    # raised / crashed: repeat must be clean
    if r["repeat_exc"] is not None:
        return result(False, "repeat-raised",
                      f"after a {r['outcome']} run ({r['exc']}) the fault-free repeat with "
                      f"overwrite=True raised {r['repeat_exc']}", sig, digest, True, probes,
                      outcome=r["outcome"], **st)
    want = dstar
    if cfg["tempdir"] == "ext_uuid":
        d = json.loads(dstar)
        d["tmp"] = []
        want = json.dumps(d, sort_keys=True, default=str)
    if r["repeat_fingerprint"] != want:
        return result(False, "repeat-not-clean",
                      f"after a {r['outcome']} run ({r['exc']}) the fault-free repeat with "
                      f"overwrite=True left a different dataset: "
                      f"{_diff(want, r['repeat_fingerprint'])}", sig, digest, True, probes,
                      outcome=r["outcome"], **st)
    return result(True, digest=digest, nontrivial=nontrivial, probes=probes,
                  outcome=r["outcome"], **st)


def _diff(a, b):
    da, db = json.loads(a), json.loads(b)
    if "unreadable" in db:
        return f"stored dataset cannot be read: {db['unreadable']}"
    out = []
    for k in ("files", "dirs", "tmp", "meta"):
        if da[k] != db[k]:
            out.append(f"{k}: expected {da[k]} got {db[k]}")
    if da["parts"] != db["parts"]:
        for p in sorted(set(da["parts"]) | set(db["parts"])):
            if da["parts"].get(p) != db["parts"].get(p):
                ea = da["parts"].get(p)
                eb = db["parts"].get(p)
                out.append(f"part {p}: expected {len(ea[0]) if ea else None} rows, got "
                           f"{len(eb[0]) if eb else None} rows")
    return "; ".join(out)[:700]


def sample(case, res):
    cfg = case["cfg"]
    return {"seed": case["seed"], "layer": case["layer"], "plan": case["plan"],
            "repeat": case["repeat"], "tempdir": cfg["tempdir"], "npartitions": cfg["npartitions"],
            "retry": cfg["retry"], "store": cfg["store"], "sim": case["sim"],
            "outcome": res["outcome"], "faults_fired": res["faults"], "events": res["events"],
            "simulated_seconds": round(res["sim_time"], 3), "digest": res["digest"]}


def shrink_candidates(case):
    c = case
    if c["sim"] != REF_SIM:
        d = copy.deepcopy(c)
        d["sim"] = REF_SIM
        yield d
    if len(c["plan"]) > 1:
        for k in list(c["plan"]):
            d = copy.deepcopy(c)
            del d["plan"][k]
            yield d
    for k, (kind, param) in c["plan"].items():
        if param is not None:
            d = copy.deepcopy(c)
            d["plan"][k] = [kind, None]
            yield d
    for i, (op, rel, kind, r) in enumerate(c["repeat"]):
        if r > 1:
            d = copy.deepcopy(c)
            d["repeat"][i][3] = r - 1
            yield d
    if c["cfg"].get("prev"):
        d = copy.deepcopy(c)
        d["cfg"]["prev"] = False
        yield d
