"""C04 - .cx selects exactly the intersecting rows, with or without a spatial index.
Engine E4 (sequential histories): the property quantifies over *index-state histories* -
never built / built with any (p, page_size) / inherited by a derived object / dropped by a
pickle or parquet 'restart'.  A state machine over live objects (array, GeoSeries,
GeoDataFrame) performs builds, derivations, restarts and cx queries; every cx result is
checked (i) for membership against an exact reference geometry and (ii) for equality
with the same query on a fresh never-indexed twin built from the model."""
from __future__ import annotations

import copy
import hashlib
import json
import math
import os
import pickle
import random

import numpy as np
import pandas as pd

from .. import e1, e2, gen, models, seams
from ..core import HarnessError
from ..runner import mix, result

PROP = "C04"
LEVEL = "exploration"
RULE = ("one case = a source (one of 7 kinds, <= 24 rows, missing/empty/duplicate rows, container "
        "array | GeoSeries | GeoDataFrame with extra columns and an arbitrary possibly non-unique "
        "index) and a history of <= 25 steps over a pool of live objects: build_sindex(p, page_size "
        "in {1,2,3,5,8,512}), lazy .sindex, derive (slice, take, mask, iloc, copy, column subset, "
        "concat), pickle and parquet round trips, cx[x0:x1, y0:y1] with any combination of present / "
        "omitted / reversed ends; drawn from splitmix64(VERIF_SEED, run index). Non-trivial: >= 1 cx "
        "on an object that has (or inherited) an index and >= 3 steps; distinct = distinct (input, "
        "operation sequence) digests.")
ASSUMPTIONS = [
    "sequential histories only: no schedule, clock or fault in this property; pickle / parquet round "
    "trips are the 'restart' steps",
    "membership oracle: exact closed-set element-vs-box intersection in Fraction arithmetic on "
    "integer/half coordinates (agreed with intersects_bounds on 151 200 generated pairs)",
    "boxes have positive width and height; an omitted end is the model's tight total extent",
]
COMPONENTS = {
    "real": ["spatialpandas cx / HilbertRtree / geometry arrays / GeoSeries / GeoDataFrame (from "
             "/repo)", "pandas indexing", "pickle", "parquet round trip through SimFS"],
    "simulated": ["storage for the parquet step (fault-free)"],
}
EXPECTED_PROBES = ["cx_with_index", "cx_without_index", "index_inherited_by_derived_object",
                   "pickle_of_indexed_object", "page_size_1", "omitted_end", "reversed_ends",
                   "whole_page_of_inert_rows", "covered_rows_nonempty", "container_frame",
                   "container_series", "container_array", "strided_or_reversed_slice",
                   "box_end_within_float32_step_of_coordinate",
                   "same_boxes_indexed_twice_inert_rows_elsewhere",
                   "geometry_column_replaced_in_place_after_cx"]

PAGES = (1, 2, 3, 5, 8, 512)
OPS = ("build", "build", "sindex", "slice", "slice_step", "take", "mask", "copy", "concat", "colsubset",
       "dropna_build", "setcol",
       "pickle", "parquet", "cx", "cx", "cx", "cx")


def cases(tier, base_seed):
    i = 0
    while True:
        seed = mix(base_seed, i)
        rng = random.Random(seed)
        kind = rng.choice(models.KINDS)
        n = rng.choice((0, 1, 2, 5, 9, 14, 24))
        pm, pe = rng.choice(((0.15, 0.1), (0.0, 0.0), (0.5, 0.2)))
        values = gen.gen_values(rng, kind, n, pm, pe, "float64", dup=0.2)
        subtype = "float64"
        if kind in ("point", "multipoint") and rng.random() < 0.3:
            # float32 storage of coordinates that are NOT float32 numbers (decimal tenths):
            # the stored value lies a rounding step off the decimal a query box names.  Only
            # for the kinds decided by comparisons alone, where float arithmetic stays exact.
            subtype = "float32"
            values = gen.to_tenths(rng, values)
        if n >= 6 and rng.random() < 0.3:
            # a whole run of inert rows (fills an R-tree page for small page sizes)
            a = rng.randrange(n - 3)
            for j in range(a, a + 4):
                values[j] = None if rng.random() < 0.5 else gen.empty_element(kind)
        container = rng.choice(("array", "series", "frame"))
        index = gen.gen_index(rng, n, rng.choice(("default", "named", "nonunique", "str")))
        steps = []
        for _ in range(rng.randint(3, 25 if tier != "quick" else 16)):
            steps.append({"op": rng.choice(OPS), "src": rng.getrandbits(16),
                          "src2": rng.getrandbits(16), "a": rng.randint(-25, 25),
                          "b": rng.randint(-25, 25), "bits": rng.getrandbits(24),
                          "idx": [rng.randint(0, 40) for _ in range(rng.randint(0, 8))],
                          "p": rng.randint(1, 31), "page": rng.choice(PAGES),
                          "box": gen.gen_box(rng), "omit": rng.getrandbits(4) if rng.random() < 0.3
                          else 0, "rev": rng.getrandbits(2) if rng.random() < 0.3 else 0,
                          "align": rng.random() < 0.3,
                          "near": rng.getrandbits(10) | 1 if rng.random() < 0.5 else 0})
        yield {"seed": seed, "kind": kind, "values": values, "subtype": subtype,
               "container": container,
               "index": index, "extra": [rng.choice("abc") for _ in range(n)], "steps": steps}
        i += 1


def warmup():
    k = 0
    for c in cases("quick", 404040):
        run_case(c)
        k += 1
        if k >= 4:
            break


class Bad(Exception):
    def __init__(self, cls, msg):
        super().__init__(msg)
        self.cls, self.msg = cls, msg


class Obj:
    """A live object + its model: element values, index labels, extra column, container."""
    __slots__ = ("obj", "vals", "labels", "extra", "container", "indexed", "iname", "built")

    def __init__(self, obj, vals, labels, extra, container, indexed, iname):
        self.obj, self.vals, self.labels, self.extra = obj, vals, labels, extra
        self.container, self.indexed, self.iname = container, indexed, iname
        self.built = None       # (p, page_size) of the last explicit build on this object


_SUBTYPE = ["float64"]      # coordinate subtype of the running case (one run per process)


def _make(kind, vals, labels, extra, container, iname):
    from spatialpandas import GeoDataFrame, GeoSeries
    arr = gen.build_array(kind, vals, _SUBTYPE[0])
    if container == "array":
        return arr
    idx = pd.Index(labels, name=iname) if len(labels) else pd.Index([], name=iname, dtype="int64")
    if container == "series":
        return GeoSeries(arr, index=idx)
    return GeoDataFrame({"s": [e[0] for e in extra], "geo": arr, "v": [e[1] for e in extra]},
                        index=idx)


def _arr_of(o):
    if o.container == "array":
        return o.obj
    if o.container == "series":
        return o.obj.array
    return o.obj["geo"].array


def _has_index(o):
    return _arr_of(o)._sindex is not None


def run_case(case):
    probes, sig = {}, {"kind": case["kind"], "container": case["container"]}
    done = []
    bad = None
    seed = case["seed"]
    _SUBTYPE[0] = case.get("subtype", "float64")
    sig["subtype"] = _SUBTYPE[0]
    sim = e1.new_sim(seed, {"workers": 1, "strategy": "inorder", "switch_p": 0.0})
    with seams.scratch(f"c04-{seed}") as root:
        store, fs = e1.new_store(sim, root, {"atomic_close": False, "refresh": False,
                                             "shuffle_ls": True, "latency": 0.001})
        try:
            with seams.installed(sim, store, scheduler=False):
                _drive(case, root, fs, probes, sig, done)
        except HarnessError:
            raise
        except Bad as b:
            bad = (b.cls, b.msg)
    digest = hashlib.sha256(json.dumps([case["kind"], case["container"], case["values"],
                                        case["index"], done], default=str).encode()
                            ).hexdigest()[:16]
    st = {"events": len(done), "switches": 0, "sim_time": sim.now, "tasks": 0}
    if bad:
        return result(False, bad[0], bad[1], sig, digest, True, probes, **st)
    return result(True, digest=digest,
                  nontrivial=len(done) >= 3 and bool(probes.get("cx_with_index")),
                  probes=probes, **st)


def _guard(what, fn, sig):
    try:
        return fn()
    except (HarnessError, Bad):
        raise
    except Exception as e:  # noqa: BLE001
        import traceback
        tb = traceback.extract_tb(e.__traceback__)
        where = next((f"{os.path.basename(f.filename)}:{f.name}" for f in reversed(tb)
                      if seams.SP_DIR in f.filename), "?")
        sig["where"] = where
        raise Bad(f"exception@{where}", f"{what} raised {type(e).__name__}: {str(e)[:200]} "
                  f"(in {where})") from None


def _drive(case, root, fs, probes, sig, done):
    from spatialpandas.io import read_parquet, to_parquet
    kind = case["kind"]
    n = len(case["values"])
    ix = case["index"]
    labels = list(range(n)) if ix["kind"] == "default" else list(ix["values"])
    iname = ix.get("name") if ix["kind"] != "default" else None
    cont = case["container"]
    probes[f"container_{cont}"] = 1
    extra = [(sv, j) for j, sv in enumerate(case["extra"])]
    first = Obj(_make(kind, case["values"], labels, extra, cont, iname),
                list(case["values"]), labels, extra, cont, False, iname)
    pool = [first]
    for si, st in enumerate(case["steps"]):
        op = st["op"]
        o = pool[st["src"] % len(pool)]
        n = len(o.vals)
        sig["op"] = op
        new = None
        if op == "build":
            kw = {"p": st["p"], "page_size": st["page"]}
            already = _has_index(o)
            _guard("build_sindex", lambda: o.obj.build_sindex(**kw), sig)
            if not _has_index(o):
                raise Bad("index-not-built", "build_sindex left no index on the object")
            if st["page"] == 1 and not already:
                probes["page_size_1"] = 1
            if not already and st["page"] <= 3:
                inert = [models.is_inert(kind, v) for v in o.vals]
                if any(all(inert[j:j + st["page"]]) for j in range(0, max(0, n - st["page"] + 1))):
                    probes["whole_page_of_inert_rows"] = 1
            done.append(("build", st["p"], st["page"]))
            o.built = (st["p"], st["page"])
            continue
        if op == "sindex":
            if o.container == "frame":
                _guard("geometry.sindex", lambda: o.obj.geometry.sindex, sig)
            else:
                _guard("sindex", lambda: o.obj.sindex, sig)
            done.append(("sindex",))
            continue
        if op == "cx":
            _cx(o, st, kind, probes, sig, done)
            continue
        if op == "slice":
            a, b = sorted((st["a"] % (n + 1), st["b"] % (n + 1)))
            sel = list(range(a, b))
            if o.container == "array":
                new = _guard("slice", lambda: o.obj[a:b], sig)
            else:
                new = _guard("iloc slice", lambda: o.obj.iloc[a:b], sig)
            done.append(("slice", a, b))
        elif op == "slice_step":
            # strided / reversed slices, whole-length ones included (arr[::-1], iloc[::2])
            step = (-1, 2, -2, -1)[st["bits"] & 3]
            if st["bits"] & 4:
                sl = slice(None, None, step)
            else:
                a, b = sorted((st["a"] % (n + 1), st["b"] % (n + 1)))
                sl = slice(a, b, step) if step > 0 else slice(b - 1 if b else None,
                                                              a - 1 if a else None, step)
            sel = list(range(n))[sl]
            if o.container == "array":
                new = _guard("strided slice", lambda: o.obj[sl], sig)
            else:
                new = _guard("iloc strided slice", lambda: o.obj.iloc[sl], sig)
            probes["strided_or_reversed_slice"] = 1
            done.append(("slice_step", sl.start, sl.stop, sl.step))
        elif op == "take":
            if n == 0:
                continue
            sel = [j % n for j in st["idx"]]
            if o.container == "array":
                new = _guard("take", lambda: o.obj.take(sel), sig)
            else:
                new = _guard("iloc list", lambda: o.obj.iloc[sel], sig)
            done.append(("take", sel))
        elif op == "mask":
            m = [bool((st["bits"] >> (j % 24)) & 1) for j in range(n)]
            sel = [j for j in range(n) if m[j]]
            new = _guard("mask", lambda: o.obj[np.array(m, dtype=bool)], sig)
            done.append(("mask", m))
        elif op == "dropna_build":
            # the rows that have a box, in the same order (what dropna() / a slice cutting
            # leading missing rows gives), indexed with the SAME p and page size as the
            # source: two objects with the same defined boxes, their inert rows elsewhere
            if not o.built:
                kw = {"p": st["p"], "page_size": st["page"]}
                _guard("build_sindex", lambda: o.obj.build_sindex(**kw), sig)
                o.built = (st["p"], st["page"])
            m = [not models.is_inert(kind, v) for v in o.vals]
            if st["bits"] & 1 and n:
                # keep the tail from the first defined row on instead (leading inert rows cut)
                k0 = next((j for j in range(n) if m[j]), n)
                m = [j >= k0 for j in range(n)]
            sel = [j for j in range(n) if m[j]]
            new = _guard("mask of defined rows", lambda: o.obj[np.array(m, dtype=bool)], sig)
            nobj = Obj(new, [o.vals[j] for j in sel], [o.labels[j] for j in sel],
                       [o.extra[j] for j in sel], o.container, False, o.iname)
            _admit(pool, nobj, kind, probes, sig)
            kw = {"p": o.built[0], "page_size": o.built[1]}
            _guard("build_sindex (same configuration as the source)",
                   lambda: nobj.obj.build_sindex(**kw), sig)
            nobj.built = o.built
            if len(sel) < n:
                probes["same_boxes_indexed_twice_inert_rows_elsewhere"] = 1
            done.append(("dropna_build", o.built, sel))
            continue
        elif op == "setcol":
            # the geometry column of a frame replaced IN PLACE (same frame object, same column
            # name) after the frame has already answered a cx query
            if o.container != "frame" or n < 2:
                continue
            new = _guard("copy", lambda: o.obj.copy(), sig)
            if st["bits"] & 1:
                _guard("build_sindex", lambda: new.build_sindex(p=st["p"], page_size=st["page"]),
                       sig)
            _guard("cx before the column is replaced", lambda: new.cx[0:16, 0:16], sig)
            k = 1 + (st["bits"] >> 1) % (n - 1)
            perm = list(range(k, n)) + list(range(k))
            vals2 = [o.vals[j] for j in perm]
            arr2 = gen.build_array(kind, vals2, _SUBTYPE[0])

            def assign():
                new["geo"] = arr2
            _guard("frame['geo'] = other array", assign, sig)
            nobj = Obj(new, vals2, list(o.labels), list(o.extra), o.container, False, o.iname)
            probes["geometry_column_replaced_in_place_after_cx"] = 1
            done.append(("setcol", k))
            _admit(pool, nobj, kind, probes, sig)
            continue
        elif op == "copy":
            sel = list(range(n))
            new = _guard("copy", lambda: o.obj.copy(), sig)
            done.append(("copy",))
        elif op == "colsubset":
            if o.container != "frame":
                continue
            sel = list(range(n))
            new = _guard("column subset", lambda: o.obj[["geo", "v", "s"]], sig)
            done.append(("colsubset",))
        elif op == "concat":
            o2 = pool[st["src2"] % len(pool)]
            if o2.container != o.container or o2.iname != o.iname:
                continue
            if o.container == "array":
                new = _guard("concat", lambda: type(o.obj)._concat_same_type([o.obj, o2.obj]), sig)
            else:
                new = _guard("pd.concat", lambda: pd.concat([o.obj, o2.obj]), sig)
            nobj = Obj(new, o.vals + o2.vals, o.labels + o2.labels, o.extra + o2.extra,
                       o.container, False, o.iname)
            done.append(("concat", len(o.vals), len(o2.vals)))
            _admit(pool, nobj, kind, probes, sig)
            continue
        elif op == "pickle":
            if _has_index(o):
                probes["pickle_of_indexed_object"] = 1
            sel = list(range(n))
            new = _guard("pickle", lambda: pickle.loads(pickle.dumps(o.obj)), sig)
            done.append(("pickle",))
        elif op == "parquet":
            if o.container != "frame" or n == 0:
                continue
            sel = list(range(n))
            path = os.path.join(root, f"s{si}.parquet")
            _guard("to_parquet", lambda: to_parquet(o.obj, path, filesystem=fs), sig)
            new = _guard("read_parquet", lambda: read_parquet(path, filesystem=fs), sig)
            new = new[list(o.obj.columns)]
            done.append(("parquet",))
        if new is None:
            continue
        parent_indexed = _has_index(o)
        nobj = Obj(new, [o.vals[j] for j in sel], [o.labels[j] for j in sel],
                   [o.extra[j] for j in sel], o.container, False, o.iname)
        if parent_indexed and _has_index(nobj):
            probes["index_inherited_by_derived_object"] = 1
        _admit(pool, nobj, kind, probes, sig)


def _admit(pool, nobj, kind, probes, sig):
    got = models.array_values(_arr_of(nobj))
    if len(got) != len(nobj.vals) or any(not models.values_equal(a, b)
                                         for a, b in zip(got, nobj.vals)):
        raise Bad("derivation-elements", "derived object does not hold the model's elements "
                  "(C16 territory, reported here because the history depends on it)")
    pool.append(nobj)
    if len(pool) > 8:
        del pool[1]


def _labels_of(res, container):
    if container == "array":
        return None
    return res.index.tolist()


def _cx(o, st, kind, probes, sig, done):
    n = len(o.vals)
    box = list(st["box"])
    ext = models.tight_total_bounds(kind, o.vals)
    finite = not any(math.isnan(v) for v in ext)
    if st["align"] and finite and ext[2] > ext[0] and ext[3] > ext[1]:
        # a box sharing an edge with the data extent (touching cases)
        box = [ext[0], ext[1], (ext[0] + ext[2]) / 2, ext[3]] if st["bits"] & 1 else \
            [ext[0] - 2, ext[1] - 2, ext[0], ext[3] + 2]
    if _SUBTYPE[0] == "float32" and st.get("near") and finite:
        # box ends that are the decimal tenth next to a stored (float32) coordinate: a hair
        # below or above it, so the row is in or out by less than one float32 rounding step
        flat = [c for v in o.vals if v for c in v if c == c]
        nb = st["near"]
        vx = round(flat[0::2][(nb >> 1) % len(flat[0::2])], 1)
        vy = round(flat[1::2][(nb >> 4) % len(flat[1::2])], 1)
        box = [vx, vy - 3.0, vx + 2.0, vy] if nb & 256 else [vx - 2.0, vy, vx, vy + 3.0]
        probes["box_end_within_float32_step_of_coordinate"] = 1
    x0, y0, x1, y1 = box
    ends = {"x0": x0, "x1": x1, "y0": y0, "y1": y1}
    omitted = [k for j, k in enumerate(("x0", "x1", "y0", "y1")) if (st["omit"] >> j) & 1]
    for k in omitted:
        ends[k] = None
    if omitted:
        probes["omitted_end"] = 1
    sx = (ends["x0"], ends["x1"])
    sy = (ends["y0"], ends["y1"])
    if st["rev"] & 1 and None not in sx:
        sx = (sx[1], sx[0])
        probes["reversed_ends"] = 1
    if st["rev"] & 2 and None not in sy:
        sy = (sy[1], sy[0])
        probes["reversed_ends"] = 1
    key = (slice(*sx), slice(*sy))
    # the closed box the query means
    eff = {"x0": ext[0], "y0": ext[1], "x1": ext[2], "y1": ext[3]}
    eff.update({k: v for k, v in ends.items() if v is not None})
    ebox = [eff["x0"], eff["y0"], eff["x1"], eff["y1"]]
    if any(isinstance(v, float) and math.isnan(v) for v in ebox):
        expect = []
    else:
        bx = [min(ebox[0], ebox[2]), min(ebox[1], ebox[3]), max(ebox[0], ebox[2]),
              max(ebox[1], ebox[3])]
        if kind not in ("point", "multipoint") and not (bx[2] > bx[0] and bx[3] > bx[1]):
            return      # degenerate box for a line/polygon kind: outside the guarantee
        expect = [j for j in range(n) if models.intersects_box(kind, o.vals[j], bx)]
    indexed = _has_index(o)
    probes["cx_with_index" if indexed else "cx_without_index"] = 1
    sig["indexed"] = indexed
    if indexed:
        try:
            c, _ = _arr_of(o)._sindex.covers_overlaps(
                (min(ebox[0], ebox[2]), min(ebox[1], ebox[3]), max(ebox[0], ebox[2]),
                 max(ebox[1], ebox[3])))
            if len(c):
                probes["covered_rows_nonempty"] = 1
        except Exception:  # noqa: BLE001
            pass
    res = _guard(f"cx[{sx[0]}:{sx[1]}, {sy[0]}:{sy[1]}]", lambda: o.obj.cx[key], sig)
    done.append(("cx", sx, sy, indexed))
    _compare_selection(res, o, expect, kind, f"cx[{sx}, {sy}] (index built: {indexed})",
                       "membership")
    # equivalence with a never-indexed twin built from the model
    twin = _make(kind, o.vals, o.labels, o.extra, o.container, o.iname)
    tres = _guard("cx on the never-indexed twin", lambda: twin.cx[key], sig)
    a = _canon(res, o.container)
    b = _canon(tres, o.container)
    if a != b:
        raise Bad("index-dependent", f"cx[{sx}, {sy}] differs between the object (index built: "
                  f"{indexed}) and a never-indexed twin: {str(a)[:200]} vs {str(b)[:200]}")


def _canon(res, container):
    if container == "array":
        return [models.freeze(v) for v in models.array_values(res)]
    if container == "series":
        return (res.index.tolist(), [models.freeze(v) for v in models.array_values(res.array)],
                res.index.name)
    return (sorted(res.columns), res.index.name, e2.recs(res[["s", "geo", "v"]]))


def _compare_selection(res, o, expect, kind, what, cls):
    want_vals = [o.vals[j] for j in expect]
    if o.container == "array":
        got_vals = models.array_values(res)
    elif o.container == "series":
        got_vals = models.array_values(res.array)
    else:
        if list(res.columns) != ["s", "geo", "v"] and list(res.columns) != ["geo", "v", "s"]:
            raise Bad(f"{cls}-columns", f"{what}: columns {list(res.columns)}")
        got_vals = models.array_values(res["geo"].array)
    if len(got_vals) != len(want_vals) or any(not models.values_equal(a, b)
                                              for a, b in zip(got_vals, want_vals)):
        raise Bad(cls, f"{what}: selected {len(got_vals)} rows, the exact reference selects "
                  f"{len(want_vals)} (positions {expect}); got "
                  f"{[models.freeze(v) for v in got_vals][:4]} expected "
                  f"{[models.freeze(v) for v in want_vals][:4]}")
    if o.container != "array":
        if res.index.tolist() != [o.labels[j] for j in expect]:
            raise Bad(f"{cls}-labels", f"{what}: index labels {res.index.tolist()} expected "
                      f"{[o.labels[j] for j in expect]}")
    if o.container == "frame":
        if list(zip(res["s"].tolist(), res["v"].tolist())) != [o.extra[j] for j in expect]:
            raise Bad(f"{cls}-other-columns", f"{what}: other column changed")


def sample(case, res):
    return {"seed": case["seed"], "kind": case["kind"], "container": case["container"],
            "rows": len(case["values"]), "index": case["index"]["kind"],
            "steps": [(s["op"], s["p"], s["page"], s["box"], s["omit"], s["rev"])
                      for s in case["steps"][:10]],
            "steps_done": res["events"], "digest": res["digest"]}


def shrink_candidates(case):
    c = case
    n = len(c["steps"])
    size = n // 2
    while size >= 1:
        for s in range(0, n, size):
            d = copy.deepcopy(c)
            del d["steps"][s:s + size]
            if d["steps"]:
                yield d
        size //= 2
    m = len(c["values"])
    for k in (m // 2, m - 1):
        if 1 <= k < m:
            d = copy.deepcopy(c)
            d["values"] = c["values"][:k]
            d["extra"] = c["extra"][:k]
            if d["index"]["kind"] != "default":
                d["index"]["values"] = d["index"]["values"][:k]
            yield d
    for j in range(m):
        if m > 1:
            d = copy.deepcopy(c)
            del d["values"][j]
            del d["extra"][j]
            if d["index"]["kind"] != "default":
                del d["index"]["values"][j]
            yield d
    if c["container"] != "array":
        d = copy.deepcopy(c)
        d["container"] = "array"
        yield d
    if c["index"]["kind"] != "default":
        d = copy.deepcopy(c)
        d["index"] = {"kind": "default"}
        yield d
    for i, s in enumerate(c["steps"]):
        if s["omit"] or s["rev"] or s["align"] or s.get("near"):
            d = copy.deepcopy(c)
            d["steps"][i].update({"omit": 0, "rev": 0, "align": False, "near": 0})
            yield d
