"""C20 - the active geometry column is honoured and survives frame operations.
Engine E4 for the pandas half (sequential operation histories, model = (columns, active
name)) and E2/E3 for the Dask half ('identically inside every partition' under the
simulated executor, parquet re-read with geometry=)."""
from __future__ import annotations

import copy
import hashlib
import json
import os
import pickle
import random
from collections import Counter

import numpy as np
import pandas as pd

from .. import e1, e2, gen, models, seams
from ..core import HarnessError
from ..runner import mix, result

PROP = "C20"
LEVEL = "exploration"
RULE = ("one case = a frame with 2-3 geometry columns of different kinds whose active column is "
        "neither the first geometry column nor called 'geometry', plus a history of <= 15 steps: "
        "set_geometry, row selection (iloc, mask, query, head, take, sample), sort_values, copy, column "
        "subset with / without the active column / without any geometry, cx, pickle, concat of "
        "agreeing frames, assign / rename of other columns, and Dask steps (from_pandas with 1..5 "
        "partitions, Dask set_geometry, persist, compute, to_parquet + read_parquet_dask(geometry=any "
        "geometry column)); drawn from splitmix64(VERIF_SEED, run index). After each step: result type, "
        ".geometry.name, and use (cx, build_sindex, hilbert_distance, sjoin, partition_bounds, the "
        "active name inside every Dask partition). Non-trivial: >= 3 steps; distinct = distinct "
        "operation-sequence digests (pandas half) combined with event-log digests (Dask half).")
ASSUMPTIONS = [
    "the pandas half has no schedule or fault in it (sequential refinement); the Dask half runs under "
    "the simulated executor and, for the parquet step, on SimFS",
    "'use' is compared with the same operation on a single-geometry frame holding only the model's "
    "active column",
    "merge is not among the operations the property lists and is not generated",
]
COMPONENTS = {
    "real": ["spatialpandas GeoDataFrame / DaskGeoDataFrame / io (from /repo)", "pandas", "dask "
             "collections", "pyarrow parquet", "pickle"],
    "simulated": ["Dask executor", "storage for the parquet step", "uuid4"],
}
EXPECTED_PROBES = ["op_set_geometry", "op_concat", "op_pickle", "op_cx", "op_colsubset_without_active",
                   "op_colsubset_no_geometry", "dask_from_pandas", "dask_set_geometry", "dask_compute",
                   "dask_parquet_geometry_kw", "dask_persist", "per_partition_active_checked",
                   "use_sjoin", "use_hilbert", "earlier_frame_rechecked",
                   "earlier_dask_frame_rechecked", "dask_parquet_geometry_and_bounds_kw",
                   "inactive_column_named_geometry", "dask_concat", "dask_repartition", "dask_filter",
                   "op_set_geometry_inplace", "op_concat_of_empty_frames",
                   "dask_two_frames_same_schema_other_active",
                   "dask_parquet_default_after_geometry_kw", "dask_parquet_columns_reordered",
                   "dask_parquet_fully_pruned", "op_build_sindex", "dask_build_sindex"]

PANDAS_OPS = ("set_geometry", "set_geometry_same_then_inplace", "iloc", "mask", "query", "head",
              "take", "sample", "sort_values", "copy", "colsubset", "colsubset_other",
              "colsubset_nogeo", "cx", "pickle", "concat", "concat_empty", "assign", "rename",
              "build_sindex")
DASK_OPS = ("d_from_pandas", "d_set_geometry", "d_persist", "d_compute", "d_parquet", "d_concat",
            "d_build_sindex",
            "d_repartition", "d_filter", "d_concat_other_active")


def cases(tier, base_seed):
    i = 0
    while True:
        seed = mix(base_seed, i)
        rng = random.Random(seed)
        n = rng.choice((1, 3, 6, 12))
        ngeo = rng.choice((2, 2, 3))
        kinds = rng.sample(list(models.KINDS), ngeo)
        if "point" not in kinds and rng.random() < 0.6:
            kinds[rng.randrange(ngeo)] = "point"
        spec = gen.gen_frame_spec(rng, n, kinds=kinds, index_kind=rng.choice(
            ("default", "named", "nonunique")), p_missing=0.1, p_empty=0.05)
        geo_in_order = [c for c in spec["order"] if c in {x["name"] for x in spec["cols"]}]
        cand = [c for c in geo_in_order[1:] if c != "geometry"] or \
            [c for c in geo_in_order if c != "geometry"]
        spec["active"] = rng.choice(cand)   # never the first geometry column, never 'geometry'
        steps = []
        for _ in range(rng.randint(3, 15 if tier != "quick" else 10)):
            op = rng.choice(PANDAS_OPS + DASK_OPS)
            steps.append({"op": op, "col": rng.choice(geo_in_order), "bits": rng.getrandbits(24),
                          "idx": [rng.randint(0, 30) for _ in range(rng.randint(1, 6))],
                          "k": rng.randint(1, 5), "box": gen.gen_box(rng),
                          "rs": rng.getrandbits(16)})
        yield {"seed": seed, "frame": spec, "steps": steps, "sim": e1.gen_sim_cfg(rng),
               "store": e1.gen_store_cfg(rng), "right": {"values": [gen.gen_polygon(rng)
                                                                    for _ in range(2)]}}
        i += 1


def warmup():
    k = 0
    for c in cases("quick", 202020):
        run_case(c)
        k += 1
        if k >= 4:
            break


class Bad(Exception):
    def __init__(self, cls, msg):
        super().__init__(msg)
        self.cls, self.msg = cls, msg


def run_case(case):
    seed = case["seed"]
    sim = e1.new_sim(seed, case["sim"])
    probes, sig, bad, done = {}, {}, None, []
    with seams.scratch(f"c20-{seed}") as root:
        store, fs = e1.new_store(sim, root, case["store"])
        try:
            with seams.installed(sim, store):
                _drive(case, root, fs, probes, sig, done)
        except HarnessError:
            raise
        except Bad as b:
            bad = (b.cls, b.msg)
        st = {"events": sim.n_events + len(done), "switches": sim.switches, "sim_time": sim.now,
              "tasks": len(sim.tasks)}
        digest = hashlib.sha256((json.dumps(done, default=str) + sim.digest()).encode()
                                ).hexdigest()[:16]
    if bad:
        return result(False, bad[0], bad[1], sig, digest, True, probes, **st)
    return result(True, digest=digest, nontrivial=len(done) >= 3, probes=probes, **st)


def _guard(what, fn, sig):
    try:
        return fn()
    except (HarnessError, Bad):
        raise
    except Exception as e:  # noqa: BLE001
        import traceback
        tb = traceback.extract_tb(e.__traceback__)
        where = next((f"{os.path.basename(f.filename)}:{f.name}" for f in reversed(tb)
                      if seams.SP_DIR in f.filename), "?")
        sig["where"] = where
        raise Bad(f"exception@{what}", f"{what} raised {type(e).__name__}: {str(e)[:200]} "
                  f"(in {where})") from None


def _geo_cols(df):
    from spatialpandas.geometry import GeometryDtype
    return [c for c in df.columns if isinstance(df[c].dtype, GeometryDtype)]


def _check_frame(df, active, what, sig, case, probes, use=True):
    """Model = (columns of df, active).  Type, .geometry.name and use."""
    from spatialpandas import GeoDataFrame
    geos = _geo_cols(df)
    if not geos:
        if isinstance(df, GeoDataFrame):
            raise Bad(f"type@{what}", f"{what}: result without any geometry column is a "
                      f"{type(df).__name__}, expected a plain DataFrame")
        return
    if not isinstance(df, GeoDataFrame):
        raise Bad(f"type@{what}", f"{what}: result with geometry columns {geos} is a "
                  f"{type(df).__name__}, not a GeoDataFrame")
    if active not in geos:
        return          # the operation dropped the active column: nothing is claimed
    try:
        name = df.geometry.name
    except HarnessError:
        raise
    except Exception as e:  # noqa: BLE001
        raise Bad(f"active-lost@{what}", f"{what}: .geometry raises {type(e).__name__}: "
                  f"{str(e)[:120]}; the active column {active!r} is still there") from None
    if name != active:
        raise Bad(f"active-changed@{what}", f"{what}: .geometry.name is {name!r}, expected "
                  f"{active!r}")
    if use and len(df):
        _check_use(df, active, what, sig, case, probes)


def _check_use(df, active, what, sig, case, probes):
    """Spatial operations of the frame use the active column."""
    from spatialpandas import GeoDataFrame, sjoin
    single = GeoDataFrame({active: df[active].array.copy(),
                           "v": df["v"].tolist() if "v" in df else list(range(len(df)))},
                          index=df.index)
    box = case["steps"][0]["box"]
    a = _guard(f"cx after {what}", lambda: df.cx[box[0]:box[2], box[1]:box[3]], sig)
    b = single.cx[box[0]:box[2], box[1]:box[3]]
    if a.index.tolist() != b.index.tolist() or \
            [models.freeze(v) for v in models.array_values(a[active].array)] != \
            [models.freeze(v) for v in models.array_values(b[active].array)]:
        raise Bad(f"use-cx@{what}", f"{what}: cx does not use the active column {active!r}: "
                  f"selected labels {a.index.tolist()} vs {b.index.tolist()}")
    cp = df.copy()
    _guard(f"build_sindex after {what}", lambda: cp.build_sindex(), sig)
    if cp[active].array._sindex is None:
        raise Bad(f"use-sindex@{what}", f"{what}: build_sindex did not index the active column "
                  f"{active!r}")
    if models.kind_of(df[active].array) == "point":
        probes["use_sjoin"] = 1
        right = GeoDataFrame({"rg": gen.build_array("polygon", case["right"]["values"]),
                              "rv": [1, 2]})
        ja = _guard(f"sjoin after {what}", lambda: sjoin(df, right, how="inner"), sig)
        jb = sjoin(single, right, how="inner")
        if sorted(map(str, ja.index.tolist())) != sorted(map(str, jb.index.tolist())) or \
                sorted(ja["rv"].tolist()) != sorted(jb["rv"].tolist()):
            raise Bad(f"use-sjoin@{what}", f"{what}: sjoin does not use the active column {active!r}")


def _drive(case, root, fs, probes, sig, done):
    from spatialpandas import GeoDataFrame
    from spatialpandas.io import read_parquet_dask
    spec = case["frame"]
    df = gen.build_frame(spec)
    active = spec["active"]
    if any(c["name"] == "geometry" for c in spec["cols"]):
        probes["inactive_column_named_geometry"] = 1
        sig["has_column_named_geometry"] = True
    _check_frame(df, active, "construction", sig, case, probes)
    ddf = None
    dactive = None
    earlier = []        # (pandas frame, active) and (dask frame, active) seen before: later
    dearlier = []       # operations on derived frames must not change them
    pruned_alive = []   # results of bounds= re-reads (possibly empty), kept referenced
    for st in case["steps"]:
        if isinstance(df, GeoDataFrame) and active in _geo_cols(df):
            earlier.append((df, active))
            del earlier[:-3]
        if ddf is not None:
            dearlier.append((ddf, dactive))
            del dearlier[:-3]
        op = st["op"]
        sig["op"] = op
        n = len(df)
        geos = _geo_cols(df) if isinstance(df, pd.DataFrame) else []
        if op.startswith("d_"):
            # ------------------------------------------------------------ Dask half
            if op == "d_from_pandas":
                if not isinstance(df, GeoDataFrame) or active not in geos or n == 0:
                    continue
                ddf = e1.make_ddf(df, {"mode": "even", "k": max(1, min(st["k"], n))})
                dactive = active
                probes["dask_from_pandas"] = 1
            elif ddf is None:
                continue
            elif op == "d_set_geometry":
                cols = [c for c in ddf.columns if c in {x["name"] for x in spec["cols"]}]
                col = st["col"] if st["col"] in cols else cols[0]
                ddf = _guard("Dask set_geometry", lambda: ddf.set_geometry(col), sig)
                dactive = col
                probes["dask_set_geometry"] = 1
            elif op == "d_concat":
                import dask.dataframe as dd
                ddf = _guard("dd.concat", lambda: dd.concat([ddf, ddf]), sig)
                probes["dask_concat"] = 1
            elif op == "d_concat_other_active":
                # a second Dask frame over the same data and schema but with ANOTHER active
                # geometry, in the same process: neither may pick up the other's meta
                import dask.dataframe as dd
                if not isinstance(df, GeoDataFrame) or len(df) == 0:
                    continue
                cols = [c for c in _geo_cols(df) if c != active]
                if active not in _geo_cols(df) or not cols:
                    continue
                other = cols[st["bits"] % len(cols)]
                da = e1.make_ddf(df, {"mode": "even", "k": 1})
                db = e1.make_ddf(df.set_geometry(other), {"mode": "even", "k": 1})
                ca = _guard("dd.concat (frame A)", lambda: dd.concat([da, da]), sig)
                cb = _guard("dd.concat (frame B)", lambda: dd.concat([db, db]), sig)
                probes["dask_two_frames_same_schema_other_active"] = 1
                _check_dask(ca, active, "d_concat_other_active[A]", sig, probes, st, light=True)
                if ca.geometry.name != active:
                    raise Bad("dask-active-changed@d_concat_other_active",
                              f"collection A reports {ca.geometry.name!r}, expected {active!r}")
                if cb.geometry.name != other:
                    raise Bad("dask-active-changed@d_concat_other_active",
                              f"a second frame with the same schema but active {other!r} reports "
                              f"{cb.geometry.name!r} after dd.concat")
                _check_dask(cb, other, "d_concat_other_active[B]", sig, probes, st, light=True)
                done.append((op, active, other))
                continue
            elif op == "d_repartition":
                if not (1 <= st["k"] < ddf.npartitions):
                    continue        # only to fewer partitions (Dask asserts otherwise)
                ddf = _guard("repartition", lambda: ddf.repartition(npartitions=st["k"]), sig)
                probes["dask_repartition"] = 1
            elif op == "d_filter":
                if "v" not in ddf.columns:
                    continue
                ddf = _guard("Dask row filter", lambda: ddf[ddf["v"] % (st["k"] + 1) != 0], sig)
                probes["dask_filter"] = 1
            elif op == "d_build_sindex":
                ddf = _guard("Dask build_sindex", lambda: ddf.build_sindex(), sig)
                probes["dask_build_sindex"] = 1
            elif op == "d_persist":
                ddf = _guard("persist", lambda: ddf.persist(), sig)
                probes["dask_persist"] = 1
            elif op == "d_compute":
                out = _guard("compute", lambda: ddf.compute(), sig)
                probes["dask_compute"] = 1
                _check_frame(out, dactive, "DaskGeoDataFrame.compute()", sig, case, probes)
            elif op == "d_parquet":
                path = os.path.join(root, f"p{len(done)}")
                _guard("to_parquet", lambda: ddf.to_parquet("simfs://" + path), sig)
                cols = [c for c in ddf.columns if c in {x["name"] for x in spec["cols"]}]
                col = st["col"] if st["col"] in cols else cols[-1]
                rkw = {}
                if st["bits"] & 6 == 6:
                    # every column, requested in another order: geometry= still decides
                    perm = list(ddf.columns)
                    random.Random(st["rs"]).shuffle(perm)
                    rkw["columns"] = perm
                    probes["dask_parquet_columns_reordered"] = 1
                ddf = _guard("read_parquet_dask(geometry=)",
                             lambda: read_parquet_dask(path, filesystem=fs, geometry=col,
                                                       **rkw), sig)
                dactive = col
                probes["dask_parquet_geometry_kw"] = 1
                if st["bits"] & 8:
                    # the same dataset read again WITHOUT geometry=, after it was read with
                    # one: the default is the first geometry column, whatever came before
                    dflt = _guard("read_parquet_dask (default geometry)",
                                  lambda: read_parquet_dask(path, filesystem=fs), sig)
                    probes["dask_parquet_default_after_geometry_kw"] = 1
                    _check_dask(dflt, cols[0], "d_parquet[default re-read after geometry=]",
                                sig, probes, st, light=True)
                if st["bits"] & 1:
                    # pruning must use the requested column's stored extents
                    b = st["box"]
                    if st["bits"] & 16:
                        # a box disjoint from everything: every partition is pruned; such empty
                        # results of earlier reads (other geometry=) are still alive
                        b = [100.0, 100.0, 120.0, 130.0]
                        probes["dask_parquet_fully_pruned"] = 1
                    probes["dask_parquet_geometry_and_bounds_kw"] = 1
                    full = _guard("compute", lambda: ddf.compute(), sig)
                    pr = _guard("read_parquet_dask(geometry=, bounds=)",
                                lambda: read_parquet_dask(path, filesystem=fs, geometry=col,
                                                          bounds=tuple(b), **rkw), sig)
                    # whatever survives the pruning (possibly nothing), the frame must still
                    # report and use the requested column
                    _check_dask(pr, col, "d_parquet[geometry=, bounds=]", sig, probes, st,
                                light=True)
                    pruned_alive.append(pr)
                    del pruned_alive[:-4]
                    if st["bits"] & 16:
                        # the same fully pruned read for every other geometry column, all
                        # results alive together: each reports the column it was asked for
                        for other in cols:
                            if other == col:
                                continue
                            po = _guard("read_parquet_dask(geometry=, bounds=) [all pruned]",
                                        lambda other=other: read_parquet_dask(
                                            path, filesystem=fs, geometry=other,
                                            bounds=tuple(b), **rkw), sig)
                            pruned_alive.append(po)
                            _check_dask(po, other, "d_parquet[geometry=, bounds= pruning all]",
                                        sig, probes, st, light=True)
                    if pr.geometry.name != col:
                        raise Bad("dask-active-changed@d_parquet",
                                  f"read_parquet_dask(geometry={col!r}, bounds={b}) reports "
                                  f"{pr.geometry.name!r}")
                    got = _guard("pruned.cx", lambda: pr.cx[b[0]:b[2], b[1]:b[3]].compute(), sig)
                    single = GeoDataFrame({col: full[col].array.copy()}, index=full.index)
                    want = single.cx[b[0]:b[2], b[1]:b[3]]
                    a = sorted(map(str, (models.freeze(v) for v in models.array_values(got[col].array))))
                    w = sorted(map(str, (models.freeze(v) for v in models.array_values(want[col].array))))
                    if a != w:
                        raise Bad("dask-use-pruning@d_parquet",
                                  f"read_parquet_dask(geometry={col!r}, bounds={b}).cx selects "
                                  f"{len(a)} rows, the rows of {col!r} intersecting the box are {len(w)}")
            done.append((op, dactive))
            _check_dask(ddf, dactive, op, sig, probes, st)
            if dearlier:
                old, oact = dearlier[st["bits"] % len(dearlier)]
                if old is not ddf:
                    probes["earlier_dask_frame_rechecked"] = 1
                    _check_dask(old, oact, f"{op} (earlier frame re-checked)", sig, probes, st,
                                light=True)
            continue
        # -------------------------------------------------------------- pandas half
        if not isinstance(df, GeoDataFrame):
            # a plain frame (no geometry left): start again from the source
            df = gen.build_frame(spec)
            active = spec["active"]
            geos = _geo_cols(df)
            n = len(df)
        if op == "set_geometry":
            col = st["col"] if st["col"] in geos else geos[0]
            df = _guard("set_geometry", lambda: df.set_geometry(col), sig)
            active = col
            probes["op_set_geometry"] = 1
        elif op == "set_geometry_same_then_inplace":
            # selecting the column that is already active must still give an independent
            # frame: changing that frame in place afterwards must not touch the source
            others = [c for c in geos if c != active]
            if active not in geos or not others:
                continue
            same = _guard("set_geometry(already active)", lambda: df.set_geometry(active), sig)
            _guard("set_geometry(inplace=True)",
                   lambda: same.set_geometry(others[st["bits"] % len(others)], inplace=True), sig)
            df = same
            active = others[st["bits"] % len(others)]
            probes["op_set_geometry_inplace"] = 1
        elif op == "concat_empty":
            if active not in geos:
                continue
            e = df.iloc[:0]
            df = _guard("pd.concat of empty frames", lambda: pd.concat([e, e.copy()]), sig)
            probes["op_concat_of_empty_frames"] = 1
        elif op == "iloc":
            pos = [j % n for j in st["idx"]] if n else []
            df = _guard("iloc", lambda: df.iloc[pos], sig)
        elif op == "mask":
            m = np.array([bool((st["bits"] >> (j % 24)) & 1) for j in range(n)], dtype=bool)
            df = _guard("mask", lambda: df[m], sig)
        elif op == "query":
            if "v" not in df.columns:
                continue
            df = _guard("query", lambda: df.query(f"v % {st['k'] + 1} != 0"), sig)
        elif op == "head":
            df = _guard("head", lambda: df.head(st["k"]), sig)
        elif op == "take":
            pos = [j % n for j in st["idx"]] if n else []
            df = _guard("take", lambda: df.take(pos), sig)
        elif op == "sample":
            if n == 0:
                continue
            df = _guard("sample", lambda: df.sample(n=min(n, st["k"]), random_state=st["rs"]), sig)
        elif op == "sort_values":
            if "v" not in df.columns:
                continue
            df = _guard("sort_values", lambda: df.sort_values("v", ascending=bool(st["bits"] & 1)),
                        sig)
        elif op == "build_sindex":
            # an R-tree built for the column that is active NOW; what later steps derive from
            # this frame (set_geometry to another column, copies) must not query it for theirs
            df = _guard("build_sindex", lambda: df.build_sindex(), sig)
            probes["op_build_sindex"] = 1
        elif op == "copy":
            df = _guard("copy", lambda: df.copy(), sig)
        elif op == "colsubset":
            cols = [active] + [c for j, c in enumerate(df.columns)
                               if c != active and (st["bits"] >> j) & 1]
            df = _guard("column subset", lambda: df[cols], sig)
        elif op == "colsubset_other":
            others = [c for c in geos if c != active]
            if not others:
                continue
            cols = others + [c for c in df.columns if c not in geos]
            df = _guard("column subset without the active column", lambda: df[cols], sig)
            probes["op_colsubset_without_active"] = 1
        elif op == "colsubset_nogeo":
            cols = [c for c in df.columns if c not in geos]
            if not cols:
                continue
            df = _guard("column subset without geometry", lambda: df[cols], sig)
            probes["op_colsubset_no_geometry"] = 1
        elif op == "cx":
            if active not in geos:
                continue
            b = st["box"]
            df = _guard("cx", lambda: df.cx[b[0]:b[2], b[1]:b[3]], sig)
            probes["op_cx"] = 1
        elif op == "pickle":
            df = _guard("pickle", lambda: pickle.loads(pickle.dumps(df)), sig)
            probes["op_pickle"] = 1
        elif op == "concat":
            other = df.copy() if st["bits"] & 1 else df.iloc[: max(1, n // 2)]
            df = _guard("pd.concat", lambda: pd.concat([df, other]), sig)
            probes["op_concat"] = 1
        elif op == "assign":
            df = _guard("assign", lambda: df.assign(extra_col=1), sig)
        elif op == "rename":
            if "s" not in df.columns:
                continue
            df = _guard("rename", lambda: df.rename(columns={"s": "s2"}), sig)
        done.append((op, active))
        probes[f"op_{op}"] = 1
        if earlier:
            old, oact = earlier[st["bits"] % len(earlier)]
            if old is not df:
                probes["earlier_frame_rechecked"] = 1
                _check_frame(old, oact, f"{op} (earlier frame re-checked)", sig, case, probes,
                             use=False)
        if isinstance(df, pd.DataFrame):
            _check_frame(df, active, op, sig, case, probes,
                         use=op not in ("colsubset_other", "colsubset_nogeo"))
            if isinstance(df, GeoDataFrame) and active not in _geo_cols(df):
                # active column dropped: whatever the frame now says is the new state
                try:
                    active = df.geometry.name
                except Exception:  # noqa: BLE001
                    df = gen.build_frame(spec)
                    active = spec["active"]


def _check_dask(ddf, dactive, op, sig, probes, st, light=False):
    """The collection and *every partition* agree on the active geometry, and use it."""
    from spatialpandas.dask import DaskGeoDataFrame
    if not isinstance(ddf, DaskGeoDataFrame):
        raise Bad(f"type@{op}", f"{op}: {type(ddf).__name__} is not a DaskGeoDataFrame")
    name = _guard(f"Dask .geometry after {op}", lambda: ddf.geometry.name, sig)
    if name != dactive:
        raise Bad(f"dask-active-changed@{op}", f"{op}: collection .geometry.name {name!r}, "
                  f"expected {dactive!r}")

    def active_of(d):
        try:
            return pd.Series([d.geometry.name])
        except Exception as e:  # noqa: BLE001
            return pd.Series([f"<{type(e).__name__}>"])
    names = _guard(f"per-partition active geometry after {op}",
                   lambda: ddf.map_partitions(active_of, meta=pd.Series(["x"])).compute().tolist(),
                   sig)
    probes["per_partition_active_checked"] = 1
    if any(x != dactive for x in names):
        raise Bad(f"dask-partition-active@{op}", f"{op}: active geometry inside the partitions is "
                  f"{names}, the collection says {dactive!r}")
    if light:
        whole = _guard(f"compute after {op}", lambda: ddf.compute(), sig)
        try:
            nm = whole.geometry.name
        except Exception as e:  # noqa: BLE001
            nm = f"<{type(e).__name__}>"
        if nm != dactive:
            raise Bad(f"dask-compute-active@{op}", f"{op}: compute() gives active geometry {nm!r}, "
                      f"expected {dactive!r}")
        return
    # use: partition_bounds / hilbert packing follow the active column
    pb = _guard(f"partition_bounds after {op}", lambda: ddf.partition_sindex and
                ddf._partition_bounds[dactive], sig)
    parts = _guard(f"partitions after {op}", lambda: e2.partitions_of(ddf), sig)
    want = [models.tight_total_bounds(models.kind_of(p[dactive].array),
                                      models.array_values(p[dactive].array)) for p in parts]
    got = [tuple(r) for r in pb[["x0", "y0", "x1", "y1"]].values.tolist()]
    if len(got) != len(want) or any(not models.bounds_equal(a, b) for a, b in zip(got, want)):
        raise Bad(f"dask-use-bounds@{op}", f"{op}: partition bounds {got} are not those of the "
                  f"active column {dactive!r}: {want}")
    probes["use_hilbert"] = 1
    whole = pd.concat(parts) if parts else None
    if whole is not None and len(whole):
        try:
            packed = ddf.pack_partitions(npartitions=1, p=6).compute()
        except HarnessError:
            raise
        except Exception:  # noqa: BLE001 - C09: raising claims nothing
            return
        arr = whole[dactive].array
        tb = models.tight_total_bounds(models.kind_of(arr), models.array_values(arr))
        if not any(np.isnan(tb)):
            exp = sorted(models.hilbert_reference(models.kind_of(arr), models.array_values(arr),
                                                  tb, 6))
            if sorted(int(v) for v in packed.index.tolist()) != exp:
                raise Bad(f"dask-use-hilbert@{op}", f"{op}: pack_partitions does not use the "
                          f"active column {dactive!r}")


def sample(case, res):
    f = case["frame"]
    return {"seed": case["seed"], "rows": f["n"], "active": f["active"],
            "geometry_columns": [(c["name"], c["kind"]) for c in f["cols"]],
            "column_order": f["order"], "steps": [(s["op"], s["col"]) for s in case["steps"]],
            "sim": case["sim"], "digest": res["digest"]}


def shrink_candidates(case):
    c = case
    n = len(c["steps"])
    size = n // 2
    while size >= 1:
        for s in range(0, n, size):
            d = copy.deepcopy(c)
            del d["steps"][s:s + size]
            if d["steps"]:
                yield d
        size //= 2
    ref = {"workers": 1, "strategy": "inorder", "switch_p": 0.0, "stall": False}
    if c["sim"] != ref:
        d = copy.deepcopy(c)
        d["sim"] = ref
        yield d
    m = c["frame"]["n"]
    for k in (m // 2, m - 1):
        if 1 <= k < m:
            d = copy.deepcopy(c)
            d["frame"] = gen.shrink_spec_rows(c["frame"], list(range(k)))
            yield d
    if c["frame"]["index"]["kind"] != "default":
        d = copy.deepcopy(c)
        d["frame"]["index"] = {"kind": "default"}
        yield d
