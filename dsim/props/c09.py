"""C09 - pack_partitions keeps every row and orders rows along the Hilbert curve.
Engine E2: the task-based shuffle behind set_index is a multi-party exchange of rows
between partitions; the simulated executor decides order and overlap of its tasks."""
from __future__ import annotations

import copy
import random

from .. import e1, e2, gen, models, seams
from ..core import HarnessError
from ..runner import mix, result

PROP = "C09"
LEVEL = "exploration"
RULE = ("one case = (frame spec, two input partitionings - even or explicit splits with empty "
        "partitions -, npartitions, p, simulated-scheduler config) drawn from "
        "splitmix64(VERIF_SEED, run index); the real pack_partitions graph (hilbert column, quantiles, "
        "shuffle, repartition) is executed task by task by the simulated executor. Non-trivial: the "
        "call returned and the run had >= 1 context switch; distinct = distinct event-log digests.")
ASSUMPTIONS = [
    "a pack_partitions call that raises claims nothing (counted as outcome 'raised'); more than "
    "half of the runs raising is reported as a harness problem",
    "Hilbert-distance oracle: an independent reference (classical curve over the bbox-centre cell, "
    "same float64 scaling) against the model's tight total bounds of the active geometry",
    "no storage and no faults in this property; the simulated dimension is the task schedule",
]
COMPONENTS = {
    "real": ["spatialpandas (from /repo)", "dask collections, shuffle/repartition graph "
             "construction and optimisation", "pandas", "numba kernels"],
    "simulated": ["Dask executor (worker count, task order, overlap)", "uuid4"],
}
EXPECTED_PROBES = ["returned", "empty_input_partition", "more_partitions_than_rows",
                   "independence_compared", "missing_rows_present",
                   "packed_after_cached_bounds_and_mask",
                   "input_range_partitioned_along_curve_unsorted_inside",
                   "polygon_ring_outside_first_ring",
                   "packed_again_after_in_place_column_assignment", "packed_after_build_sindex"]


def cases(tier, base_seed):
    i = 0
    while True:
        seed = mix(base_seed, i)
        rng = random.Random(seed)
        n = rng.choice((2, 3, 5, 8, 12, 20, 30, 40))
        frame = gen.gen_frame_spec(rng, n, index_kind=rng.choice(("default", "named", "nonunique")))

        def parts():
            k = rng.randint(1, min(8, n))
            r = rng.random()
            if r < 0.35:
                return {"mode": "splits", "splits": gen.gen_splits(rng, n, k)}
            if r < 0.5:
                return {"mode": "repartition", "k": k, "to": rng.randint(1, min(8, n))}
            if r < 0.6:
                return {"mode": "concat_empty", "k": k}
            return {"mode": "even", "k": k}
        loose = rng.random() < 0.15 and gen.loosen_rings(frame, rng)
        if rng.random() < 0.12:
            gen.make_collinear(frame, rng)      # total extent degenerate in one axis only
        if rng.random() < 0.15:
            gen.shift_spec(frame, rng.choice((-8.0, -20.0, 500000.0)))
        pre = None
        if rng.random() < 0.3:
            pre = {"warm": rng.random() < 0.7, "mod": rng.choice((2, 3, 4)), "rem": rng.randint(0, 1),
                   "build": rng.random() < 0.4, "warm_after": rng.random() < 0.5}
        case = {"seed": seed, "frame": frame, "parts": parts(), "parts2": parts(), "pre": pre,
                "npartitions": rng.choice((1, 2, 3, 4, 5, 8, 11, 16)),
                "p": rng.choice((1, 2, 3, 5, 8, 10, 15, 20)),
                "sim": e1.gen_sim_cfg(rng), "loose_rings": bool(loose),
                "again": rng.random() < 0.25}
        if rng.random() < 0.15:
            # input that is already range-partitioned along the curve (every distance in one
            # input partition below every distance in the next) but unsorted inside the
            # partitions: what an earlier spatial split, or a coarser packing, leaves behind
            hr = _hilbert_ranges(rng, frame, case["p"])
            if hr:
                case["parts"] = {"mode": "splits", "splits": hr, "ranges": True}
        yield case
        i += 1


def _hilbert_ranges(rng, frame, p):
    d = e1.expected_distances(frame, p)
    if d is None:
        return None
    d = [models.cell(v) for v in d]
    order = sorted(range(len(d)), key=lambda i: (d[i], i))
    cuts = [j for j in range(1, len(order)) if d[order[j]] != d[order[j - 1]]]
    if not cuts:
        return None
    chosen = sorted(rng.sample(cuts, rng.randint(1, min(4, len(cuts)))))
    edges = [0] + chosen + [len(order)]
    out = []
    for a, b in zip(edges, edges[1:]):
        chunk = order[a:b]
        rng.shuffle(chunk)
        out.append(chunk)
    return out


def warmup():
    for c in cases("quick", 424242):
        run_case(c)
        break


def _pack(spec, parts, npartitions, p, tag, pre=None):
    """pack_partitions as a user observes it: .compute() for the rows, the per-partition
    lengths for the partition structure, .npartitions for the count.  `pre`: the frame's
    history before packing - partition bounds / index cached on the parent, then a row mask."""
    gdf = gen.build_frame(spec)
    ddf = e1.make_ddf(gdf, parts, tag)
    if pre:
        if pre.get("warm"):
            ddf.partition_sindex          # fills the parent's partition-bounds cache
        ddf = ddf[ddf["v"] % pre["mod"] != pre["rem"]]
        if pre.get("build"):
            ddf = ddf.build_sindex()      # every partition carries a built spatial index
        if pre.get("warm_after"):
            ddf.partition_sindex          # the frame that is packed has its own bounds cached
    active = ddf.geometry.name      # "the active geometry" = what the input frame reports
    packed = ddf.pack_partitions(npartitions=npartitions, p=p)
    whole = packed.compute()
    lens = [int(x) for x in packed.map_partitions(len).compute().tolist()]
    if sum(lens) != len(whole):
        raise HarnessError(f"partition lengths {lens} do not add up to {len(whole)} rows")
    out, a = [], 0
    for n in lens:
        out.append(whole.iloc[a:a + n])
        a += n
    return out, packed.npartitions, ddf, active


def run_case(case):
    full = case["frame"]
    pre = case.get("pre")
    spec = full
    if pre:
        keep = [i for i, v in enumerate(full["extra"]["v"]) if v % pre["mod"] != pre["rem"]]
        spec = gen.shrink_spec_rows(full, keep)      # the rows the packed frame must hold
        if not keep:
            pre = None
            spec = full
    sim = e1.new_sim(case["seed"], case["sim"])
    probes = {}
    sig = {"npartitions": case["npartitions"]}
    col = gen.col_of(spec, spec["active"])
    if any(v is None for v in col["values"]):
        probes["missing_rows_present"] = 1
    if case.get("loose_rings"):
        probes["polygon_ring_outside_first_ring"] = 1
    if case["parts"].get("ranges"):
        probes["input_range_partitioned_along_curve_unsorted_inside"] = 1
    if case["parts"]["mode"] == "splits" and any(not s for s in case["parts"]["splits"]):
        probes["empty_input_partition"] = 1
    if case["parts"]["mode"] in ("repartition", "concat_empty"):
        probes["input_partitions_made_by_dask"] = 1
    if case["npartitions"] > spec["n"]:
        probes["more_partitions_than_rows"] = 1
    bad = None
    outcome = "completed"
    try:
        with seams.installed(sim, None):
            try:
                parts, np_, ddf0, act = _pack(full, case["parts"], case["npartitions"],
                                              case["p"], "a", pre)
                if act != spec["active"]:
                    # the input collection reports another active column than the pandas frame
                    # it was made from (that is C20's business): pack must follow the collection
                    probes["input_collection_active_differs"] = 1
                    spec = dict(spec, active=act)
                if pre:
                    probes["packed_after_cached_bounds_and_mask" if pre.get("warm")
                           else "packed_after_mask"] = 1
                    if pre.get("build"):
                        probes["packed_after_build_sindex"] = 1
            except HarnessError:
                raise
            except Exception as e:  # noqa: BLE001 - the property claims nothing when it raises
                outcome = "raised"
                sig["exc"] = type(e).__name__
                parts = None
            if parts is not None:
                probes["returned"] = 1
                exp = e1.expected_distances(spec, case["p"])
                distinct = len(set(exp)) if exp is not None else None
                sig["requested_gt_distinct_distances"] = (
                    distinct is not None and case["npartitions"] > distinct)
                sig["returned_fewer"] = len(parts) < case["npartitions"]
                bad = e2.check_packed(parts, spec, case["p"], case["npartitions"])
                if bad is not None and bad[0] == "partition-count" and sig["returned_fewer"]:
                    # is it Dask's set_index stage alone that delivers fewer partitions?
                    try:
                        # same collection object => same expression names => same divisions
                        h = ddf0._with_hilbert_distance_column(case["p"])
                        si = h.set_index("hilbert_distance", npartitions=case["npartitions"],
                                         shuffle_method="tasks")
                        m = len(si.map_partitions(len).compute())
                        sig["dask_set_index_alone_gives_same_count"] = (m == len(parts))
                    except HarnessError:
                        raise
                    except Exception:  # noqa: BLE001
                        sig["dask_set_index_alone_gives_same_count"] = None
                if bad is None and np_ != len(parts):
                    bad = ("partition-count", f"npartitions attribute {np_} != {len(parts)} "
                           "partitions actually computed")
                if bad is None:
                    try:
                        parts2, _, _, act2 = _pack(full, case["parts2"], case["npartitions"],
                                                   case["p"], "b", pre)
                        if act2 != act:
                            parts2 = None
                    except HarnessError:
                        raise
                    except Exception:  # noqa: BLE001
                        parts2 = None
                    if parts2 is not None:
                        probes["independence_compared"] = 1
                        a = sorted((float(i), repr(r)) for d in parts
                                   for i, r in zip(d.index.tolist(), e2.recs(d, False)))
                        b = sorted((float(i), repr(r)) for d in parts2
                                   for i, r in zip(d.index.tolist(), e2.recs(d, False)))
                        if a != b:
                            bad = ("partitioning-dependent", "packing the same frame from two input "
                                   f"partitionings gave different (distance,row) sets: {a[:3]} vs {b[:3]}")
                if bad is None and case.get("again") and "v" in spec["extra"]:
                    # the SAME collection object, edited in place (an ordinary column added),
                    # packed a second time with the same p: the result holds the frame as it
                    # is now
                    try:
                        ddf0["w"] = ddf0["v"] + 1
                        again = ddf0.pack_partitions(npartitions=case["npartitions"], p=case["p"])
                        whole = again.compute()
                    except HarnessError:
                        raise
                    except Exception:  # noqa: BLE001 - raising claims nothing
                        whole = None
                    if whole is not None:
                        probes["packed_again_after_in_place_column_assignment"] = 1
                        spec3 = dict(spec, extra=dict(spec["extra"],
                                                      w=[v + 1 for v in spec["extra"]["v"]]),
                                     order=list(spec["order"]) + ["w"])
                        if "w" not in whole.columns:
                            bad = ("columns@packed-again", "the collection got a column 'w' in "
                                   "place before it was packed again; the packed frame has "
                                   f"columns {list(whole.columns)}")
                            sig["again"] = True
                        b2 = e2.check_packed([whole], spec3, case["p"], 1,
                                             what="second pack_partitions of the edited collection")
                        if bad is None and b2 is not None and b2[0] != "partition-count":
                            bad = (b2[0] + "@packed-again", b2[1])
                            sig["again"] = True
    except HarnessError:
        raise
    st = {"events": sim.n_events, "switches": sim.switches, "sim_time": sim.now,
          "tasks": len(sim.tasks)}
    digest = sim.digest()
    if bad is not None:
        return result(False, bad[0], bad[1], sig, digest, True, probes, outcome=outcome, **st)
    return result(True, digest=digest, nontrivial=(outcome == "completed" and sim.switches > 0),
                  probes=probes, outcome=outcome, **st)


def sample(case, res):
    f = case["frame"]
    return {"seed": case["seed"], "rows": f["n"], "active": f["active"],
            "geometry_columns": [(c["name"], c["kind"]) for c in f["cols"]],
            "input_partitions": case["parts"], "second_partitioning": case["parts2"],
            "npartitions": case["npartitions"], "p": case["p"], "sim": case["sim"],
            "outcome": res["outcome"], "logical_tasks": res["tasks"],
            "context_switches": res["switches"], "digest": res["digest"]}


def shrink_candidates(case):
    c = case
    ref = {"workers": 1, "strategy": "inorder", "switch_p": 0.0, "stall": False}
    if c["sim"] != ref:
        d = copy.deepcopy(c)
        d["sim"] = ref
        yield d
    if c.get("pre"):
        d = copy.deepcopy(c)
        d["pre"] = None
        yield d
    if c.get("again"):
        d = copy.deepcopy(c)
        d["again"] = False
        yield d
    for key in ("parts", "parts2"):
        if c[key] != {"mode": "even", "k": 1}:
            d = copy.deepcopy(c)
            d[key] = {"mode": "even", "k": 1}
            yield d
    n = c["frame"]["n"]
    if n > 1 and c["parts"]["mode"] == "even" and c["parts2"]["mode"] == "even" and not c.get("pre"):
        size = n // 2
        while size >= 1:
            for s in range(0, n, size):
                keep = [i for i in range(n) if not (s <= i < s + size)]
                if keep:
                    d = copy.deepcopy(c)
                    d["frame"] = gen.shrink_spec_rows(c["frame"], keep)
                    for key in ("parts", "parts2"):
                        d[key] = {"mode": "even", "k": max(1, min(c[key]["k"], len(keep)))}
                    yield d
            size //= 2
    if len(c["frame"]["cols"]) > 1:
        for col in c["frame"]["cols"]:
            if col["name"] != c["frame"]["active"]:
                d = copy.deepcopy(c)
                d["frame"]["cols"] = [x for x in d["frame"]["cols"] if x["name"] != col["name"]]
                d["frame"]["order"] = [x for x in d["frame"]["order"] if x != col["name"]]
                yield d
    for npn in (1, 2, 3):
        if npn < c["npartitions"]:
            d = copy.deepcopy(c)
            d["npartitions"] = npn
            yield d
    if c["frame"]["index"]["kind"] != "default":
        d = copy.deepcopy(c)
        d["frame"]["index"] = {"kind": "default"}
        yield d
