"""C12 - stored partition bounds are the true extents; pruning never loses a row.
Engine E3: datasets written by DaskGeoDataFrame.to_parquet and pack_partitions_to_parquet
(1..16 partitions), read back as single datasets, lists and globs, with bounds= boxes that
touch partition extents exactly; listing order and task schedule are simulated."""
from __future__ import annotations

import copy
import math
import os
import random
from collections import Counter

from .. import e1, e2, e3, gen, models, seams
from ..core import HarnessError
from ..runner import mix, result

PROP = "C12"
LEVEL = "exploration"
RULE = ("one case = frame spec (1-3 geometry columns) + one or two datasets written by to_parquet "
        "or pack_partitions_to_parquet with 1..16 partitions + 2-4 reads (path / list / glob, "
        "optional geometry=, optional bounds= box - half of them aligned to a partition extent, some "
        "with reversed corners or disjoint from everything), drawn from splitmix64(VERIF_SEED, run "
        "index), executed on SimFS under the simulated executor. Non-trivial: >= 2 stored partitions "
        "and >= 1 context switch; distinct = distinct event-log digests.")
ASSUMPTIONS = [
    "reference extents come from a pure-Python min/max over the finite coordinates of the rows "
    "that read_parquet returns for each part file (read from the OS in natural file order)",
    "a partition whose extent is undefined (no finite coordinate) overlaps no box",
    "end-to-end: pruned.cx[box] must equal the rows of the model that intersect the box by the "
    "exact reference geometry (boxes have positive width and height)",
    "storage never fails here (faults are C19)",
]
COMPONENTS = {
    "real": ["spatialpandas.io / dask.py (from /repo)", "dask to_parquet", "pyarrow parquet + "
             "dataset discovery", "fsspec base class", "pandas"],
    "simulated": ["Dask executor", "storage (SimFS): listing order, latency, store mode", "uuid4"],
}
EXPECTED_PROBES = ["writer_to_parquet", "writer_pack", "ge_11_partitions", "read_list",
                   "read_list_unsorted", "rewrite_after_filter", "one_axis_reversed",
                   "box_covers_total_extent", "read_list_with_dataset_lacking_bounds",
                   "read_glob", "bounds_kw", "geometry_kw", "box_touches_partition_extent",
                   "box_disjoint_from_all", "partition_with_undefined_extent", "pruned_some",
                   "second_generation_over_first", "written_after_partition_bounds_cached",
                   "rewrite_after_cx", "full_mantissa_coordinates",
                   "end_to_end_cx"]


def cases(tier, base_seed):
    i = 0
    while True:
        seed = mix(base_seed, i)
        rng = random.Random(seed)
        n = rng.choice((2, 5, 9, 16, 24, 36))
        ngeo = rng.choice((1, 2, 3))
        spec = gen.gen_frame_spec(rng, n, kinds=[rng.choice(models.KINDS) for _ in range(ngeo)],
                                  index_kind="default")
        geo = [c["name"] for c in spec["cols"]]
        loose = rng.random() < 0.12 and gen.loosen_rings(spec, rng)
        if rng.random() < 0.15:
            # coordinates with a full double mantissa: recorded extents must still be the
            # stored rows' extents to the last bit (the geometry oracle is skipped, see below)
            for c in spec["cols"]:
                c["values"] = gen.to_noisy(rng, c["values"])
            loose = True
            spec["noisy"] = True
        two = rng.random() < 0.4 and n >= 4
        half = n // 2
        writes = []
        rows0 = list(range(half)) if two else list(range(n))
        writes.append({"ds": "ds_0", "rows": rows0, "writer": rng.choice(("to_parquet", "pack")),
                       "nparts": rng.choice((1, 2, 3, 5, 8, 11, 12, 16))})
        if two:
            writes.append({"ds": "ds_1", "rows": list(range(half, n)),
                           "writer": writes[0]["writer"],
                           "nparts": rng.choice((1, 2, 3, 11, 13))})
        reads = []
        for _ in range(rng.randint(2, 4)):
            how = rng.choice(("path", "path", "list", "glob")) if two else "path"
            reads.append({"how": how, "ds": rng.choice(("ds_0", "ds_1")) if two else "ds_0",
                          "list_reversed": rng.random() < 0.5,
                          "geometry": rng.choice([None, None] + geo),
                          "bounds": rng.choice(("none", "box", "box", "aligned", "aligned",
                                                "disjoint", "cover", "cover")),
                          "box": gen.gen_box(rng), "pick": rng.getrandbits(16),
                          "reverse": rng.choice((0, 0, 0, 1, 2, 3))})   # bit0: x ends, bit1: y ends
        rewrite = {"mod": rng.choice((2, 3)), "rem": rng.randint(0, 1),
                   "via": rng.choice(("filter", "filter", "cx_cover", "cx_box")),
                   "box": gen.gen_box(rng)} \
            if rng.random() < 0.4 else None
        plain = None
        regen = {"dx": rng.choice((1, 2, 3, -1, 4))} if rng.random() < 0.3 else None
        if rng.random() < 0.25:
            plain = {"rows": sorted(rng.sample(range(n), rng.randint(1, min(n, 6)))),
                     "first": rng.random() < 0.5, "box": gen.gen_box(rng)}
        sim = e1.gen_sim_cfg(rng)
        if writes[0]["writer"] == "pack" and rng.random() < 0.4:
            # concurrent concat tasks of the pack writer under line-level pre-emption
            sim.update({"fine": True, "workers": rng.choice((2, 4, 8)),
                        "strategy": rng.choice(("random", "pct"))})
        for w in writes:
            w["warm"] = rng.random() < 0.3
        yield {"seed": seed, "frame": spec, "writes": writes, "reads": reads, "rewrite": rewrite,
               "plain": plain, "regen": regen, "loose_rings": bool(loose), "sim": sim, "store": e1.gen_store_cfg(rng)}
        i += 1


def warmup():
    k = 0
    for c in cases("quick", 121212):
        run_case(c)
        k += 1
        if k >= 2:
            break


class Bad(Exception):
    def __init__(self, cls, msg):
        super().__init__(msg)
        self.cls, self.msg = cls, msg


def run_case(case):
    seed = case["seed"]
    sim = e1.new_sim(seed, case["sim"])
    probes, sig, bad = {}, {}, None
    with seams.scratch(f"c12-{seed}") as root:
        store, fs = e1.new_store(sim, root, case["store"])
        try:
            with seams.installed(sim, store):
                _drive(case, root, fs, probes, sig)
        except HarnessError:
            raise
        except Bad as b:
            bad = (b.cls, b.msg)
        st = {"events": sim.n_events, "switches": sim.switches, "sim_time": sim.now,
              "tasks": len(sim.tasks)}
        digest = sim.digest()
    if bad:
        return result(False, bad[0], bad[1], sig, digest, True, probes, **st)
    return result(True, digest=digest,
                  nontrivial=sim.switches > 0 and probes.get("stored_partitions", 0) >= 2,
                  probes={k: v for k, v in probes.items() if k != "stored_partitions"}, **st)


def _guard(what, fn, sig):
    try:
        return fn()
    except (HarnessError, Bad):
        raise
    except Exception as e:  # noqa: BLE001
        import traceback
        tb = traceback.extract_tb(e.__traceback__)
        where = next((f"{os.path.basename(f.filename)}:{f.name}" for f in reversed(tb)
                      if seams.SP_DIR in f.filename), "?")
        sig["where"] = where
        raise Bad(f"exception@{what}@{where}",
                  f"{what} raised {type(e).__name__}: {str(e)[:240]} (in {where})") from None


def _extent(kind, values):
    return models.tight_total_bounds(kind, values)


def _overlaps(ext, box):
    if any(math.isnan(v) for v in ext):
        return False
    x0, y0, x1, y1 = box
    if x0 > x1:
        x0, x1 = x1, x0
    if y0 > y1:
        y0, y1 = y1, y0
    return not (ext[2] < x0 or ext[3] < y0 or ext[0] > x1 or ext[1] > y1)


def _drive(case, root, fs, probes, sig):
    base = os.path.join(root, "sets")
    os.makedirs(base)
    if case["frame"].get("noisy"):
        probes["full_mantissa_coordinates"] = 1
    elif case.get("loose_rings"):
        probes["polygon_ring_outside_first_ring"] = 1
    _generation(case, case["frame"], base, fs, probes, sig, 0)
    if case.get("regen"):
        # a second generation of every dataset, written over the first at the SAME paths after
        # the first was read: same schema and partition counts, every coordinate translated
        # (the recorded bounds text usually keeps its length), a subset of the rows or not
        probes["second_generation_over_first"] = 1
        sig["generation"] = 1
        spec2 = gen.shift_spec(copy.deepcopy(case["frame"]), float(case["regen"]["dx"]))
        _generation(case, spec2, base, fs, probes, sig, 1)


def _generation(case, spec, base, fs, probes, sig, generation):
    from spatialpandas.io import read_parquet_dask
    geo = {c["name"]: c["kind"] for c in spec["cols"]}
    over = {"overwrite": True} if generation else {}
    stored = {}      # ds -> list of partitions; partition = {"vals": {col: values}, "recs": [...]}
    for w in case["writes"]:
        gdf = gen.build_frame(spec, w["rows"])
        if len(gdf) == 0:
            continue
        path = os.path.join(base, w["ds"])
        sig["writer"] = w["writer"]
        probes[f"writer_{w['writer']}"] = 1
        if w["nparts"] >= 11:
            probes["ge_11_partitions"] = 1
        ddf = e3.make_ddf(gdf, {"mode": "even", "k": max(1, min(w["nparts"], len(gdf)))})
        if w.get("warm"):
            # the frame was queried before it is written: partition bounds of its active
            # column (only) are already cached on it
            _guard("partition_sindex before writing", lambda: ddf.partition_sindex, sig)
            probes["written_after_partition_bounds_cached"] = 1
        if w["writer"] == "to_parquet":
            _guard("to_parquet", lambda: ddf.to_parquet("simfs://" + path, **over), sig)
        else:
            _guard("pack_partitions_to_parquet",
                   lambda: ddf.pack_partitions_to_parquet(path, filesystem=fs,
                                                          npartitions=w["nparts"], p=8,
                                                          **over), sig)
        # ground truth: what each part file really holds, read from the OS in load order
        parts = []
        for f in e3.part_files(path):
            df = e3.read_part(f)
            parts.append({"vals": {c: models.array_values(df[c].array) for c in geo},
                          "recs": models.frame_records(df, with_index=False),
                          "cols": list(df.columns)})
        stored[w["ds"]] = parts
        probes["stored_partitions"] = max(probes.get("stored_partitions", 0), len(parts))
    if not stored:
        return
    if case.get("rewrite") and "ds_0" in stored:
        # a dataset written from a frame that already carries stored bounds and was then
        # row-filtered: its recorded bounds must be those of the rows actually written
        probes["rewrite_after_filter"] = 1
        src = _guard("read_parquet_dask", lambda: read_parquet_dask(
            os.path.join(base, "ds_0"), filesystem=fs), sig)
        m = case["rewrite"]
        via = m.get("via", "filter")
        if via == "filter":
            flt = src[src["v"] % m["mod"] != m["rem"]]
        else:
            # ... or selected with cx: a box covering everything stored (only rows without an
            # active geometry drop out), or an arbitrary one
            b = m["box"]
            if via == "cx_cover":
                b = [-1000.0, -1000.0, 1000.0, 1000.0]
            flt = _guard("cx before rewriting", lambda: src.cx[b[0]:b[2], b[1]:b[3]], sig)
            probes["rewrite_after_cx"] = 1
        path = os.path.join(base, "ds_2")
        sig["writer"] = "rewrite"
        _guard("to_parquet after filter",
               lambda: flt.to_parquet("simfs://" + path, **over), sig)
        parts = []
        for f in e3.part_files(path):
            df = e3.read_part(f)
            parts.append({"vals": {c: models.array_values(df[c].array) for c in geo},
                          "recs": models.frame_records(df, with_index=False),
                          "cols": list(df.columns)})
        stored["ds_2"] = parts
    first_geo = next(c for c in spec["order"] if c in geo)
    if case.get("plain") and "ds_0" in stored:
        _plain_mixed_read(case, spec, geo, base, fs, stored, first_geo, probes, sig)
    for r in case["reads"]:
        pick = r["ds"] if r["ds"] in stored else sorted(stored)[0]
        if "ds_2" in stored and r["pick"] % 3 == 0:
            pick = "ds_2"
        dss = sorted(stored) if r["how"] in ("list", "glob") else [pick]
        if r["how"] == "list":
            if r.get("list_reversed"):
                dss = dss[::-1]          # a list is loaded in the order given
                probes["read_list_unsorted"] = 1
            arg = [os.path.join(base, d) for d in dss]
            probes["read_list"] = 1
        elif r["how"] == "glob":
            arg = os.path.join(base, "ds_*")
            probes["read_glob"] = 1
        else:
            arg = os.path.join(base, dss[0])
        sig["how"] = r["how"]
        parts = [p for d in dss for p in stored[d]]
        active = r["geometry"] or first_geo
        akind = geo[active]
        exts = {c: [_extent(geo[c], p["vals"][c]) for p in parts] for c in geo}
        if any(any(math.isnan(v) for v in e) for e in exts[active]):
            probes["partition_with_undefined_extent"] = 1
        kw = {}
        if r["geometry"]:
            kw["geometry"] = r["geometry"]
            probes["geometry_kw"] = 1
        # 1. recorded bounds == true extents, partition by partition in load order
        ddf = _guard("read_parquet_dask", lambda: read_parquet_dask(arg, filesystem=fs, **kw), sig)
        _check_bounds(ddf, exts, list(range(len(parts))), "read_parquet_dask", sig)
        if ddf.npartitions != len(parts):
            raise Bad("partition-count", f"{ddf.npartitions} partitions loaded, {len(parts)} stored")
        # 2. pruning
        if r["bounds"] == "none":
            continue
        box = list(r["box"])
        good = [e for e in exts[active] if not any(math.isnan(v) for v in e)]
        if r["bounds"] == "aligned" and good:
            e = good[r["pick"] % len(good)]
            side = r["pick"] % 4
            # a box that touches the chosen partition extent exactly on one side
            if side == 0:
                box = [e[0] - 3, e[1] - 1, e[0], e[3] + 1]
            elif side == 1:
                box = [e[2], e[1] - 1, e[2] + 3, e[3] + 1]
            elif side == 2:
                box = [e[0] - 1, e[1] - 3, e[2] + 1, e[1]]
            else:
                box = [e[0] - 1, e[3], e[2] + 1, e[3] + 3]
            probes["box_touches_partition_extent"] = 1
        elif r["bounds"] == "disjoint":
            box = [100.0, 100.0, 120.0, 130.0]
            probes["box_disjoint_from_all"] = 1
        elif r["bounds"] == "cover" and good:
            # a box covering every extent: exactly the total extent, or a larger one
            tb = [min(e[0] for e in good), min(e[1] for e in good),
                  max(e[2] for e in good), max(e[3] for e in good)]
            pad = 0.0 if r["pick"] % 2 else 1.0
            box = [tb[0] - pad, tb[1] - pad, tb[2] + pad, tb[3] + pad]
            probes["box_covers_total_extent"] = 1
        rv = int(r["reverse"]) if r["reverse"] is not True else 3
        qbox = list(box)
        if rv & 1:
            qbox[0], qbox[2] = qbox[2], qbox[0]      # corners given in another order:
        if rv & 2:
            qbox[1], qbox[3] = qbox[3], qbox[1]      # each axis may be reversed on its own
        if rv:
            probes["reversed_corners"] = 1
        if rv in (1, 2):
            probes["one_axis_reversed"] = 1
        sig["bounds_mode"] = r["bounds"]
        probes["bounds_kw"] = 1
        keep = [i for i, e in enumerate(exts[active]) if _overlaps(e, box)]
        if len(keep) < len(parts):
            probes["pruned_some"] = 1
        pr = _guard("read_parquet_dask(bounds=)",
                    lambda: read_parquet_dask(arg, filesystem=fs, bounds=tuple(qbox), **kw), sig)
        got_parts = _guard("compute pruned partitions", lambda: e2.partitions_of(pr), sig)
        got = [Counter(models.frame_records(p, with_index=False)) for p in got_parts]
        got = [g for g in got if g] if not keep else got
        want = [Counter(parts[i]["recs"]) for i in keep]
        if got != want:
            sig["kept_more"] = len(got) > len(want)
            sig["undefined_extent_involved"] = any(
                any(math.isnan(v) for v in exts[active][i]) for i in range(len(parts)))
            raise Bad("pruning-partitions",
                      f"bounds={qbox} geometry={active}: {len(got)} partitions kept with row counts "
                      f"{[sum(g.values()) for g in got]}, expected partitions {keep} with row counts "
                      f"{[sum(w.values()) for w in want]} (extents {[exts[active][i] for i in keep]})")
        if keep:
            _check_bounds(pr, exts, keep, "read_parquet_dask(bounds=)", sig)
        # 3. end to end: no intersecting row is lost
        if box[2] > box[0] and box[3] > box[1] and not case.get("loose_rings"):
            probes["end_to_end_cx"] = 1
            sel = _guard("pruned.cx", lambda: pr.cx[qbox[0]:qbox[2], qbox[1]:qbox[3]].compute(), sig)
            g = Counter(models.frame_records(sel, with_index=False))
            w = Counter()
            for p in parts:
                for v, rec in zip(p["vals"][active], p["recs"]):
                    if models.intersects_box(akind, v, box):
                        w[rec] += 1
            if g != w:
                raise Bad("pruned-cx-rows",
                          f"pruned.cx[{qbox}] geometry={active}: {sum(g.values())} rows, the model has "
                          f"{sum(w.values())} intersecting rows; missing="
                          f"{list((w - g).elements())[:2]} extra={list((g - w).elements())[:2]}")


def _plain_mixed_read(case, spec, geo, base, fs, stored, first_geo, probes, sig):
    """A dataset WITHOUT stored bounds (a plain pandas to_parquet file) read together with one
    that has them: no stored bounds can be used then, so the public partition bounds must be
    computed from the data and still describe every loaded partition, and cx must lose no row."""
    from spatialpandas.io import read_parquet_dask, to_parquet
    rows = case["plain"]["rows"]
    gdf = gen.build_frame(spec, rows)
    if len(gdf) == 0:
        return
    ppath = os.path.join(base, "plain.parquet")
    _guard("to_parquet (pandas)", lambda: to_parquet(gdf, ppath, filesystem=fs), sig)
    pvals = {c: models.array_values(gdf[c].array) for c in geo}
    precs = models.frame_records(gdf, with_index=False)
    parts0 = stored["ds_0"]
    first = case["plain"]["first"]
    arg = [ppath, os.path.join(base, "ds_0")] if first else [os.path.join(base, "ds_0"), ppath]
    plain = {"vals": pvals, "recs": precs}
    parts = ([plain] + parts0) if first else (parts0 + [plain])
    sig["how"] = "list_with_plain_file"
    probes["read_list_with_dataset_lacking_bounds"] = 1
    ddf = _guard("read_parquet_dask([with and without stored bounds])",
                 lambda: read_parquet_dask(arg, filesystem=fs), sig)
    if ddf.npartitions != len(parts):
        raise Bad("partition-count", f"{ddf.npartitions} partitions loaded, {len(parts)} stored")
    exts = [_extent(geo[first_geo], p["vals"][first_geo]) for p in parts]
    pub = _guard("partition_bounds", lambda: ddf.geometry.partition_bounds[
        ["x0", "y0", "x1", "y1"]].values.tolist(), sig)
    if len(pub) != len(exts) or any(not models.bounds_equal(tuple(a), b)
                                    for a, b in zip(pub, exts)):
        raise Bad("bounds-mismatch@mixed-metadata", f"partition_bounds {pub} != true extents {exts}")
    box = case["plain"]["box"]
    if box[2] > box[0] and box[3] > box[1] and not case.get("loose_rings"):
        sel = _guard("cx", lambda: ddf.cx[box[0]:box[2], box[1]:box[3]].compute(), sig)
        g = Counter(models.frame_records(sel[list(gdf.columns)], with_index=False))
        w = Counter()
        for p in parts:
            for v, rec in zip(p["vals"][first_geo], p["recs"]):
                if models.intersects_box(geo[first_geo], v, box):
                    w[rec] += 1
        if g != w:
            raise Bad("cx-rows@mixed-metadata", f"cx[{box}] on a read mixing datasets with and "
                      f"without stored bounds: {sum(g.values())} rows, model {sum(w.values())}")


def _check_bounds(ddf, exts, idxs, what, sig):
    pb = getattr(ddf, "_partition_bounds", None) or {}
    for col, e in exts.items():
        if col not in pb:
            raise Bad(f"bounds-missing@{what}", f"{what}: no stored bounds for column {col}")
        rows = [tuple(float("nan") if v is None else float(v) for v in row) for row in
                pb[col][["x0", "y0", "x1", "y1"]].values.tolist()]
        want = [e[i] for i in idxs]
        if len(rows) != len(want) or any(not models.bounds_equal(a, b)
                                         for a, b in zip(rows, want)):
            sig["column"] = col
            raise Bad(f"bounds-mismatch@{what}",
                      f"{what}: recorded bounds of column {col} {rows} differ from the true extents "
                      f"of the stored partitions {want}")
        if list(pb[col].index) != list(range(len(want))):
            raise Bad(f"bounds-index@{what}", f"{what}: bounds index {list(pb[col].index)}")
    # the public view of the active geometry agrees
    act = ddf.geometry.name
    pub = ddf.geometry.partition_bounds[["x0", "y0", "x1", "y1"]].values.tolist()
    want = [exts[act][i] for i in idxs]
    if len(pub) != len(want) or any(not models.bounds_equal(tuple(a), b) for a, b in zip(pub, want)):
        raise Bad(f"bounds-mismatch@{what}", f"{what}: geometry.partition_bounds {pub} != {want}")


def sample(case, res):
    f = case["frame"]
    return {"seed": case["seed"], "rows": f["n"],
            "geometry_columns": [(c["name"], c["kind"]) for c in f["cols"]],
            "writes": [{k: v for k, v in w.items() if k != "rows"} for w in case["writes"]],
            "reads": case["reads"], "sim": case["sim"], "store": case["store"],
            "events": res["events"], "context_switches": res["switches"], "digest": res["digest"]}


def shrink_candidates(case):
    c = case
    ref = {"workers": 1, "strategy": "inorder", "switch_p": 0.0, "stall": False}
    if c["sim"] != ref:
        d = copy.deepcopy(c)
        d["sim"] = ref
        yield d
    if len(c["reads"]) > 1:
        for i in range(len(c["reads"])):
            d = copy.deepcopy(c)
            del d["reads"][i]
            yield d
    if c.get("rewrite"):
        d = copy.deepcopy(c)
        d["rewrite"] = None
        yield d
    if c.get("plain"):
        d = copy.deepcopy(c)
        d["plain"] = None
        yield d
    if c.get("regen"):
        d = copy.deepcopy(c)
        d["regen"] = None
        yield d
    if len(c["writes"]) > 1:
        d = copy.deepcopy(c)
        d["writes"] = d["writes"][:1]
        for r in d["reads"]:
            r["how"] = "path"
            r["ds"] = "ds_0"
        yield d
    for i, w in enumerate(c["writes"]):
        for k in (1, 2, 3):
            if k < w["nparts"]:
                d = copy.deepcopy(c)
                d["writes"][i]["nparts"] = k
                yield d
    for i, r in enumerate(c["reads"]):
        if r["geometry"]:
            d = copy.deepcopy(c)
            d["reads"][i]["geometry"] = None
            yield d
        if r["reverse"]:
            d = copy.deepcopy(c)
            d["reads"][i]["reverse"] = 0
            yield d
    if len(c["frame"]["cols"]) > 1:
        used = {r["geometry"] for r in c["reads"]}
        for col in c["frame"]["cols"]:
            if col["name"] not in used and len(c["frame"]["cols"]) > 1:
                d = copy.deepcopy(c)
                d["frame"]["cols"] = [x for x in d["frame"]["cols"] if x["name"] != col["name"]]
                d["frame"]["order"] = [x for x in d["frame"]["order"] if x != col["name"]]
                if d["frame"]["active"] == col["name"]:
                    d["frame"]["active"] = d["frame"]["cols"][0]["name"]
                yield d
    n = c["frame"]["n"]
    for k in (n // 2, n - 1):
        if 1 <= k < n:
            d = copy.deepcopy(c)
            d["frame"] = gen.shrink_spec_rows(c["frame"], list(range(k)))
            for w in d["writes"]:
                w["rows"] = [r for r in w["rows"] if r < k]
            yield d
