"""C18 - results do not depend on scheduling, thread count or concurrent use.

Three kinds of case (one evidence file):
  sched    one workload (cx / sjoin / bounds-area-length / intersects_bounds / pack_partitions /
           pack_partitions_to_parquet / read_parquet_dask+cx) is run on the reference schedule
           (1 worker, in order) and then under K seeded schedules (1..16 workers; random, PCT,
           stalled workers; line-level pre-emption inside tasks in 'fine' mode); every run must
           give the identical result (and the identical stored dataset for the parquet ones).
  clients  2..6 logical client tasks share one object (geometry array, HilbertRtree,
           GeoDataFrame, DaskGeoDataFrame) starting from cold caches and issue read-only
           operations, pre-empted at line granularity inside spatialpandas; every call must
           return what a single-threaded caller gets on a fresh twin, and none may raise.
           pickle.dumps (what Dask does to these objects for persist / distributed) is one of
           the client operations.
  numba    configuration sweep (NOT a controlled schedule): prange / parallel=True kernels
           under numba.set_num_threads in {1,2,4,16} equal the one-thread result bit for bit.
"""
from __future__ import annotations

import copy
import os
import pickle
import random

import numpy as np
import pandas as pd

from .. import e1, e2, gen, models, seams
from ..core import HarnessError, Sim
from ..runner import mix, result

PROP = "C18"
LEVEL = "exploration"
RULE = ("case kinds sched / clients / numba drawn from splitmix64(VERIF_SEED, run index). sched: "
        "one workload, reference schedule + K seeded schedules, results compared for identity. "
        "clients: N logical client tasks on one shared cold object under line-level pre-emption "
        "(sys.settrace on /repo/spatialpandas), each result compared with a fresh single-threaded "
        "twin. numba: thread-count sweep. Non-trivial: >= 1 context switch (sched/clients) or >= 2 "
        "thread counts compared (numba); distinct = distinct event-log digests (for numba: "
        "distinct (kernel, input) digests).")
ASSUMPTIONS = [
    "pre-emption granularity is a filesystem call, a task boundary or a source line of "
    "spatialpandas; races inside one numba kernel call or inside pyarrow/pandas C code are below "
    "every seam and are only sampled by the thread-count sweep",
    "client operations are read-only, so linearizability degenerates to: every call returns the "
    "sequential result and none raises",
    "the reference result is the 1-worker in-order schedule with one numba thread",
]
COMPONENTS = {
    "real": ["spatialpandas (from /repo)", "dask graph construction", "pandas", "pyarrow",
             "numba kernels (each call one atomic step)", "pickle"],
    "simulated": ["Dask executor", "thread scheduling of client tasks (baton passing, "
                  "line-level pre-emption)", "storage + clock for the parquet workloads"],
    "not_controlled": ["threads numba starts inside one prange kernel call (swept, not scheduled)"],
}
EXPECTED_PROBES = ["kind_sched", "kind_clients", "kind_numba", "two_clients_inside_build_sindex",
                   "pickle_of_indexed_object", "cold_cache_first_access_concurrent",
                   "two_concurrent_pack_to_parquet_calls", "fine_mode_schedule",
                   "concurrent_sjoin_of_shared_frames", "concurrent_set_geometry_on_shared_frame",
                   "numba_very_long_ring",
                   "numba_sweep_effective"]

ENV = {"NUMBA_NUM_THREADS": "16"}      # the sweep needs up to 16 numba threads
REPO = seams.SP_DIR.rstrip("/")
WORKLOADS = ("cx", "sjoin", "measures", "intersects_bounds", "pack", "pack_parquet", "pack_parquet",
             "pack_parquet", "read_cx")
CLIENT_OBJECTS = ("array", "rtree", "frame", "dask", "dask_store")
REF = {"workers": 1, "strategy": "inorder", "switch_p": 0.0, "stall": False}


def cases(tier, base_seed):
    i = 0
    while True:
        seed = mix(base_seed, i)
        rng = random.Random(seed)
        r = rng.random()
        if r < 0.45:
            n = rng.choice((4, 8, 16, 30))
            kinds = [rng.choice(models.KINDS)]
            wl = rng.choice(WORKLOADS)
            if wl == "sjoin":
                kinds = ["point"]
            frame = gen.gen_frame_spec(rng, n, kinds=kinds, index_kind="default")
            k = rng.randint(1, min(5, n))
            yield {"seed": seed, "kind": "sched", "workload": wl, "frame": frame,
                   "parts": {"mode": "even", "k": k}, "box": gen.gen_box(rng),
                   "npartitions": rng.choice((2, 3, 5)), "right": _right(rng),
                   "tempdir": rng.choice(e1.TEMP_MODES),
                   "schedules": [dict(e1.gen_sim_cfg(rng), seed=rng.getrandbits(32),
                                      fine=rng.random() < (0.6 if wl in ("pack_parquet", "read_cx")
                                                           else 0.3))
                                 for _ in range(3 if tier == "quick" else 8)],
                   "store": e1.gen_store_cfg(rng)}
        elif r < 0.9:
            n = rng.choice((3, 6, 12, 24))
            kind = rng.choice(models.KINDS)
            frame = gen.gen_frame_spec(rng, n, kinds=[kind], index_kind="default")
            nc = rng.randint(2, 6)
            obj = rng.choice(CLIENT_OBJECTS)
            ops = []
            # a third of the cases: every client calls the SAME operation (with its own box) -
            # many threads hammering one method is the usual way such objects are shared
            menu = _client_ops(obj)
            second = obj == "frame" and rng.random() < 0.4
            if second:
                menu = menu + ("set_geometry_other", "set_geometry_other", "cx")
            if obj in ("frame", "dask") and kind == "point":
                # spatial joins of the SHARED frame(s) with a shared right frame
                menu = menu + ("sjoin_inner", "sjoin_left", "sjoin_inner")
            same = rng.choice(menu) if rng.random() < 0.35 else None
            # two cases in five: the clients draw their boxes from a pool of two, so that several
            # clients ask one shared object the SAME question (after it answered another one)
            pool = [gen.gen_box(rng) for _ in range(2)] if rng.random() < 0.4 else None
            if pool and same is None and rng.random() < 0.5:
                same = rng.choice(menu)
            for _ in range(nc):
                ops.append([{"op": same or rng.choice(menu),
                             "box": list(rng.choice(pool)) if pool else gen.gen_box(rng)}
                            for _ in range(rng.randint(1, 3))])
            if obj == "dask_store":
                ops = [o[:1] for o in ops[:3]]        # one (expensive) op per client, <= 3 clients
                if not any(o[0]["op"] == "pack_parquet" for o in ops):
                    ops[0][0]["op"] = "pack_parquet"
            yield {"seed": seed, "kind": "clients", "object": obj, "frame": frame,
                   "right": _right(rng), "second_geometry": second, "clients": ops, "page_size": rng.choice((1, 2, 3, 8, 512)),
                   "npartitions": rng.choice((2, 3, 5)), "store": e1.gen_store_cfg(rng),
                   "parts": {"mode": "even", "k": rng.randint(1, min(4, n))},
                   "line_p": rng.choice((0.05, 0.2, 0.5)),
                   "sim": {"workers": rng.choice((1, 2, 4)),
                           "strategy": rng.choice(("random", "random", "pct")),
                           "switch_p": rng.choice((0.3, 0.7)), "stall": False}}
        else:
            kind = rng.choice(("polygon", "multipolygon", "multiline", "line", "multipoint", "point"))
            n = rng.choice((5, 40, 300))
            vals = gen.gen_values(rng, kind, n)
            big = None
            if rng.random() < 0.35:
                # one very long ring with coordinates that are not exactly representable:
                # kernels that switch to a parallel reduction only above a size threshold
                big = {"n": rng.choice((20000, 40000, 70000)), "r": rng.choice((7.3, 0.1, 1234.567)),
                       "geom": rng.choice(("polygon", "multipolygon", "line", "multiline"))}
            yield {"seed": seed, "kind": "numba", "geom": kind, "values": vals,
                   "box": gen.gen_box(rng), "right": _right(rng), "big": big}
        i += 1


def _right(rng):
    n = rng.randint(1, 3)
    return {"kind": "polygon", "values": [gen.gen_polygon(rng) for _ in range(n)],
            "rv": list(range(900, 900 + n))}


def _client_ops(obj):
    if obj == "array":
        return ("cx", "sindex_intersects", "covers_overlaps", "intersects_bounds", "bounds",
                "pickle", "total_bounds")
    if obj == "rtree":
        return ("intersects", "covers_overlaps", "total_bounds", "pickle")
    if obj == "frame":
        return ("cx", "intersects_bounds", "bounds", "pickle", "sindex_intersects")
    if obj == "dask_store":
        # clients sharing one Dask frame AND one storage system: each packs the frame to a
        # dataset of its own (same external tempdir_format with {uuid}), or queries it
        return ("pack_parquet", "pack_parquet", "pack", "cx", "partition_bounds")
    return ("cx", "partition_bounds", "total_bounds", "cx_partitions", "intersects_bounds")


def warmup():
    done = set()
    for c in cases("quick", 777):
        key = (c["kind"], c.get("workload"), c.get("object"))
        if key not in done and len(done) < 9:
            done.add(key)
            run_case(c)
        if len(done) >= 9:
            break


# ------------------------------------------------------------------- dispatch
def run_case(case):
    if case["kind"] == "sched":
        return _run_sched(case)
    if case["kind"] == "clients":
        return _run_clients(case)
    return _run_numba(case)


# ---------------------------------------------------------------------- sched
def _canon_df(df):
    return ("df", list(df.columns), df.index.name, e2.recs(df))


def _workload(case, root, fs):
    from spatialpandas import GeoDataFrame, sjoin
    from spatialpandas.io import read_parquet_dask
    spec = case["frame"]
    gdf = gen.build_frame(spec)
    ddf = e1.make_ddf(gdf, case["parts"])
    wl = case["workload"]
    b = case["box"]
    if wl == "cx":
        return _canon_df(ddf.cx[b[0]:b[2], b[1]:b[3]].compute())
    if wl == "sjoin":
        r = case["right"]
        right = GeoDataFrame({"rg": gen.build_array(r["kind"], r["values"]), "rv": r["rv"]})
        return _canon_df(sjoin(ddf, right, how="left").compute())
    if wl == "measures":
        g = ddf.geometry
        return ("m", e2.np_rows(g.bounds.compute().values),
                [models.freeze(float(v)) for v in g.area.compute().tolist()],
                [models.freeze(float(v)) for v in g.length.compute().tolist()],
                tuple(models.freeze(float(v)) for v in g.total_bounds))
    if wl == "intersects_bounds":
        return ("ib", [bool(v) for v in ddf.geometry.intersects_bounds(tuple(b)).compute().tolist()])
    if wl == "pack":
        try:
            out = ddf.pack_partitions(npartitions=case["npartitions"], p=6)
            whole = out.compute()
            lens = out.map_partitions(len).compute().tolist()
        except HarnessError:
            raise
        except Exception as e:  # noqa: BLE001 - must then raise on every schedule
            return ("pack-raised", type(e).__name__)
        return ("pack", _canon_df(whole), lens)
    if wl in ("pack_parquet", "read_cx"):
        out = ddf.pack_partitions_to_parquet(
            os.path.join(root, "ds"), filesystem=fs, npartitions=case["npartitions"], p=6,
            tempdir_format=e1.tempdir_format(root, case["tempdir"]))
        if wl == "pack_parquet":
            res = out.compute()
            return ("pp", _canon_df(res), out.npartitions,
                    e1.dataset_fingerprint(e1.read_dataset(root)),
                    ("conflicts", tuple(fs.store.conflicts)))
        rr = read_parquet_dask(os.path.join(root, "ds"), filesystem=fs)
        return ("rc", _canon_df(rr.cx[b[0]:b[2], b[1]:b[3]].compute()), rr.npartitions)
    raise ValueError(wl)


def _one_schedule(case, cfg, seed, fine):
    with seams.scratch(f"c18-{case['seed']}-{seed}") as root:
        sim = Sim(seed, workers=cfg["workers"], strategy=cfg["strategy"],
                  switch_p=cfg["switch_p"], stall_p=0.1 if cfg.get("stall") else 0.0,
                  trace_files=(REPO,) if fine else (),
                  line_p=(0.02, 0.1, 0.3)[seed % 3] if fine else 0.0)
        store, fs = e1.new_store(sim, root, case["store"])
        exc = None
        out = None
        try:
            with seams.installed(sim, store):
                out = _workload(case, root, fs)
        except HarnessError:
            raise
        except Exception as e:  # noqa: BLE001
            exc = e
        return out, exc, sim


def _run_sched(case):
    probes = {"kind_sched": 1, f"workload_{case['workload']}": 1}
    sig = {"kind": "sched", "workload": case["workload"]}
    ref, rexc, rsim = _one_schedule(case, REF, case["seed"], False)
    tot = {"events": rsim.n_events, "switches": rsim.switches, "sim_time": rsim.now,
           "tasks": len(rsim.tasks)}
    digests = [rsim.digest()]
    if rexc is not None:
        # the reference run itself raised: other properties decide whether that is right;
        # here every schedule must then behave the same way
        ref = ("raised", type(rexc).__name__)
    bad = None
    for sc in case["schedules"]:
        out, exc, sim = _one_schedule(case, sc, sc["seed"], sc.get("fine"))
        for k, v in (("events", sim.n_events), ("switches", sim.switches),
                     ("sim_time", sim.now), ("tasks", len(sim.tasks))):
            tot[k] += v
        digests.append(sim.digest())
        if sc.get("fine"):
            probes["fine_mode_schedule"] = 1
        if exc is not None:
            out = ("raised", type(exc).__name__)
        if out != ref and bad is None:
            sig["schedule"] = {k: sc[k] for k in ("workers", "strategy")}
            if exc is not None and rexc is None:
                bad = ("schedule-dependent-exception",
                       f"{case['workload']}: raised {type(exc).__name__}: {str(exc)[:200]} under "
                       f"schedule {sc} but not on the reference schedule")
            else:
                bad = ("schedule-dependent-result",
                       f"{case['workload']}: result under schedule {sc} differs from the reference "
                       f"schedule: {_first_diff(ref, out)}")
    import hashlib
    digest = hashlib.sha256("".join(digests).encode()).hexdigest()[:16]
    if bad:
        return result(False, bad[0], bad[1], sig, digest, True, probes, **tot)
    return result(True, digest=digest, nontrivial=tot["switches"] > 0, probes=probes, **tot)


def _first_diff(a, b):
    sa, sb = repr(a), repr(b)
    for i, (x, y) in enumerate(zip(sa, sb)):
        if x != y:
            return f"...{sa[max(0, i - 60):i + 80]} vs ...{sb[max(0, i - 60):i + 80]}"
    return f"lengths {len(sa)} vs {len(sb)}"


# -------------------------------------------------------------------- clients
def _build_object(case, cold=True):
    """The shared object (and nothing cached on it)."""
    from spatialpandas.spatialindex import HilbertRtree
    spec = case["frame"]
    gdf = gen.build_frame(spec)
    arr = gdf[spec["active"]].array
    obj = case["object"]
    if obj == "array":
        return arr
    if obj == "rtree":
        return HilbertRtree(arr.bounds, page_size=case["page_size"])
    if obj == "frame":
        if case.get("second_geometry"):
            # a second geometry column (the first vertex of every element, as points)
            pts = []
            for v in models.array_values(arr):
                flat = [c for c in models.coords(models.kind_of(arr), v)] if v is not None else []
                pts.append([float(flat[0][0]), float(flat[0][1])] if flat else None)
            gdf = gdf.copy()
            gdf["g2"] = gen.build_array("point", pts)
        return gdf
    return e1.make_ddf(gdf, case["parts"])


def _right_frame(case):
    from spatialpandas import GeoDataFrame
    r = case.get("right")
    if not r:
        return None
    return GeoDataFrame({"rg": gen.build_array(r["kind"], r["values"]), "rv": r["rv"]},
                        index=pd.Index(range(50, 50 + len(r["rv"])), name="rid"))


def _client_op(obj_kind, obj, op, box, right=None):
    x0, y0, x1, y1 = box
    t = tuple(box)
    if op.startswith("sjoin_"):
        from spatialpandas import sjoin
        out = sjoin(obj, right, how=op[6:])
        if obj_kind == "dask":
            out = out.compute()
        return _canon_df(out)
    if obj_kind == "rtree":
        if op == "intersects":
            return sorted(int(v) for v in obj.intersects(t))
        if op == "covers_overlaps":
            c, o = obj.covers_overlaps(t)
            return (sorted(int(v) for v in c), sorted(int(v) for v in o))
        if op == "total_bounds":
            return tuple(models.freeze(float(v)) for v in obj.total_bounds)
        if op == "pickle":
            o2 = pickle.loads(pickle.dumps(obj))
            return sorted(int(v) for v in o2.intersects(t))
    if obj_kind == "array":
        if op == "cx":
            return [models.freeze(v) for v in models.array_values(obj.cx[x0:x1, y0:y1])]
        if op == "sindex_intersects":
            return sorted(int(v) for v in obj.sindex.intersects(t))
        if op == "covers_overlaps":
            c, o = obj.sindex.covers_overlaps(t)
            return (sorted(int(v) for v in c), sorted(int(v) for v in o))
        if op == "intersects_bounds":
            return [bool(v) for v in obj.intersects_bounds(t)]
        if op == "bounds":
            return e2.np_rows(obj.bounds)
        if op == "total_bounds":
            return tuple(models.freeze(float(v)) for v in obj.total_bounds)
        if op == "pickle":
            o2 = pickle.loads(pickle.dumps(obj))
            return [models.freeze(v) for v in models.array_values(o2)]
    if obj_kind == "frame":
        if op == "set_geometry_other":
            # a derived frame with the OTHER column active; the shared frame stays as it is
            return e2.recs(obj.set_geometry("g2").cx[x0:x1, y0:y1])
        if op == "cx":
            return e2.recs(obj.cx[x0:x1, y0:y1])
        if op == "intersects_bounds":
            return [bool(v) for v in obj.geometry.intersects_bounds(t).tolist()]
        if op == "bounds":
            return e2.np_rows(obj.geometry.bounds.values)
        if op == "sindex_intersects":
            return sorted(int(v) for v in obj.geometry.sindex.intersects(t))
        if op == "pickle":
            return e2.recs(pickle.loads(pickle.dumps(obj)))
    if obj_kind == "dask":
        if op == "cx":
            return e2.recs(obj.cx[x0:x1, y0:y1].compute())
        if op == "cx_partitions":
            return e2.recs(obj.cx_partitions[x0:x1, y0:y1].compute())
        if op == "partition_bounds":
            return e2.np_rows(obj.geometry.partition_bounds.values)
        if op == "total_bounds":
            return tuple(models.freeze(float(v)) for v in obj.geometry.total_bounds)
        if op == "intersects_bounds":
            return [bool(v) for v in obj.geometry.intersects_bounds(t).compute().tolist()]
    raise ValueError((obj_kind, op))


def _store_op(case, ddf, fs, root, ci, o):
    """One client operation on the shared (frame, storage) pair."""
    op, b = o["op"], o["box"]
    if op == "pack_parquet":
        name = f"ds_{ci}"
        out = ddf.pack_partitions_to_parquet(
            os.path.join(root, name), filesystem=fs, npartitions=case["npartitions"] + ci, p=6,
            tempdir_format=os.path.join(root, "tmp", "t-{uuid}-{partition}"))
        res = out.compute()
        ds = e1.read_dataset(root, name)
        ds["tree"]["tmp"] = []
        ds["tree"]["other"] = []
        return ("pp", _canon_df(res), out.npartitions, e1.dataset_fingerprint(ds))
    if op == "pack":
        try:
            whole = ddf.pack_partitions(npartitions=case["npartitions"], p=6).compute()
        except HarnessError:
            raise
        except Exception as e:  # noqa: BLE001
            return ("pack-raised", type(e).__name__)
        return ("pack", _canon_df(whole))
    if op == "cx":
        return e2.recs(ddf.cx[b[0]:b[2], b[1]:b[3]].compute())
    if op == "partition_bounds":
        return e2.np_rows(ddf.geometry.partition_bounds.values)
    raise ValueError(op)


def _run_clients_store(case):
    """Clients sharing one DaskGeoDataFrame and one storage system."""
    probes = {"kind_clients": 1, "object_dask_store": 1}
    sig = {"kind": "clients", "object": "dask_store"}
    seed = case["seed"]
    spec = case["frame"]

    def setup(root):
        os.makedirs(os.path.join(root, "tmp"), exist_ok=True)
        return e1.make_ddf(gen.build_frame(spec), case["parts"])
    # sequential model: same operations one after the other, reference schedule
    expected = []
    with seams.scratch(f"c18s-{seed}-ref") as root:
        sim0 = Sim(seed ^ 0x1111, workers=1, strategy="inorder")
        st0, fs0 = e1.new_store(sim0, root, case["store"])
        with seams.installed(sim0, st0):
            ddf0 = setup(root)
            for ci, ops in enumerate(case["clients"]):
                row = []
                for o in ops:
                    try:
                        row.append(("ok", _store_op(case, ddf0, fs0, root, ci, o)))
                    except HarnessError:
                        raise
                    except Exception as e:  # noqa: BLE001
                        row.append(("exc", type(e).__name__))
                expected.append(row)
    got = [[None] * len(ops) for ops in case["clients"]]
    with seams.scratch(f"c18s-{seed}") as root:
        sim = Sim(seed, workers=case["sim"]["workers"], strategy=case["sim"]["strategy"],
                  switch_p=case["sim"]["switch_p"])
        store, fs = e1.new_store(sim, root, case["store"])
        with seams.installed(sim, store):
            shared = setup(root)

            def client(ci):
                def run():
                    for oi, o in enumerate(case["clients"][ci]):
                        sim.event("invoke", (ci, oi, o["op"]))
                        try:
                            got[ci][oi] = ("ok", _store_op(case, shared, fs, root, ci, o))
                        except HarnessError:
                            raise
                        except Exception as e:  # noqa: BLE001
                            got[ci][oi] = ("exc", type(e).__name__, str(e)[:160], "?")
                        sim.event("return", (ci, oi))
                return run
            tasks = sim.run_clients([client(i) for i in range(len(case["clients"]))])
            for t in tasks:
                if isinstance(t.exc, HarnessError):
                    raise t.exc
        leftovers = sorted(os.listdir(os.path.join(root, "tmp")))
        conflicts = list(store.conflicts)
    st = {"events": sim.n_events, "switches": sim.switches, "sim_time": sim.now,
          "tasks": len(sim.tasks)}
    digest = sim.digest()
    npack = sum(1 for ops in case["clients"] for o in ops if o["op"] == "pack_parquet")
    if npack >= 2:
        probes["two_concurrent_pack_to_parquet_calls"] = 1
    for ci, ops in enumerate(case["clients"]):
        for oi, o in enumerate(ops):
            exp, g = expected[ci][oi], got[ci][oi]
            if exp[0] == "exc":
                continue
            if g is None:
                raise HarnessError("client did not finish")
            sig["op"] = o["op"]
            if g[0] == "exc":
                return result(False, "concurrent-exception@store",
                              f"client {ci} op {o['op']} on a shared Dask frame + storage raised "
                              f"{g[1]}: {g[2]} while {len(case['clients'])} clients ran "
                              f"{[x[0]['op'] for x in case['clients']]}; alone it succeeds",
                              sig, digest, True, probes, **st)
            if g[1] != exp[1]:
                return result(False, "concurrent-wrong-result@store",
                              f"client {ci} op {o['op']} while {len(case['clients'])} clients ran "
                              f"{[x[0]['op'] for x in case['clients']]}: "
                              f"{_first_diff(exp[1], g[1])}", sig, digest, True, probes, **st)
    if leftovers:
        return result(False, "concurrent-leftover-temp", f"temp entries left: {leftovers[:4]}",
                      sig, digest, True, probes, **st)
    if conflicts:
        return result(False, "concurrent-file-access", f"{conflicts[:3]}", sig, digest, True,
                      probes, **st)
    return result(True, digest=digest, nontrivial=sim.switches > 0, probes=probes, **st)


def _run_clients(case):
    if case["object"] == "dask_store":
        return _run_clients_store(case)
    probes = {"kind_clients": 1, f"object_{case['object']}": 1}
    sig = {"kind": "clients", "object": case["object"]}
    seed = case["seed"]
    # sequential model: every operation on a fresh twin, single-threaded, reference schedule
    sim0 = Sim(seed ^ 0x1111, workers=1, strategy="inorder")
    expected = []
    with seams.installed(sim0, None):
        for ops in case["clients"]:
            row = []
            for o in ops:
                twin = _build_object(case)
                try:
                    row.append(("ok", _client_op(case["object"], twin, o["op"], o["box"],
                                                 _right_frame(case))))
                except HarnessError:
                    raise
                except Exception as e:  # noqa: BLE001 - sequential failure: not comparable
                    row.append(("exc", type(e).__name__))
            expected.append(row)
    sim = Sim(seed, workers=case["sim"]["workers"], strategy=case["sim"]["strategy"],
              switch_p=case["sim"]["switch_p"], trace_files=(REPO,), line_p=case["line_p"])
    inside = {"build": 0, "max_build": 0, "getstate": 0}

    def hook(frame):
        name = frame.f_code.co_name
        if name == "build_sindex":
            inside["seen_build"] = inside.get("seen_build", 0) + 1

    sim.line_hook = hook
    got = [[None] * len(ops) for ops in case["clients"]]
    with seams.installed(sim, None):
        shared = _build_object(case)
        shared_right = _right_frame(case)

        def client(ci):
            def run():
                for oi, o in enumerate(case["clients"][ci]):
                    sim.event("invoke", (ci, oi, o["op"]))
                    try:
                        got[ci][oi] = ("ok", _client_op(case["object"], shared, o["op"], o["box"],
                                                        shared_right))
                    except HarnessError:
                        raise
                    except Exception as e:  # noqa: BLE001
                        import traceback
                        tb = traceback.extract_tb(e.__traceback__)
                        where = next((f"{os.path.basename(f.filename)}:{f.name}"
                                      for f in reversed(tb) if REPO in f.filename), "?")
                        got[ci][oi] = ("exc", type(e).__name__, str(e)[:160], where)
                    sim.event("return", (ci, oi))
            return run
        tasks = sim.run_clients([client(i) for i in range(len(case["clients"]))])
        for t in tasks:
            if isinstance(t.exc, HarnessError):
                raise t.exc
        # the operations are read-only: the shared objects are what they were
        modified = None
        if case["object"] == "frame":
            fresh = _build_object(case)
            if _canon_df(shared) != _canon_df(fresh) or \
                    list(shared.index.names) != list(fresh.index.names):
                modified = f"shared frame: index names {list(shared.index.names)}, columns " \
                           f"{list(shared.columns)} (built with {list(fresh.index.names)}, " \
                           f"{list(fresh.columns)})"
        if modified is None and shared_right is not None:
            fresh = _right_frame(case)
            if _canon_df(shared_right) != _canon_df(fresh):
                modified = f"shared right frame of the joins: index name " \
                           f"{shared_right.index.name!r}, columns {list(shared_right.columns)}"
    st = {"events": sim.n_events, "switches": sim.switches, "sim_time": sim.now,
          "tasks": len(sim.tasks)}
    digest = sim.digest()
    allops = {o["op"] for ops in case["clients"] for o in ops}
    if any(op.startswith("sjoin_") for op in allops):
        probes["concurrent_sjoin_of_shared_frames"] = 1
    if "set_geometry_other" in allops:
        probes["concurrent_set_geometry_on_shared_frame"] = 1
    if "pickle" in allops:
        probes["pickle_of_indexed_object"] = 1
    if inside.get("seen_build", 0) > 0 and len(case["clients"]) > 1:
        probes["cold_cache_first_access_concurrent"] = 1
    # invocation overlap measured from the log: two clients inside build_sindex lines
    builders = set()
    for e in sim.log:
        if e[3] == "line" and e[4][0] in ("build_sindex", "sindex", "numba_rtree",
                                           "partition_bounds", "partition_sindex"):
            builders.add(e[2])
    if len(builders) >= 2:
        probes["two_clients_inside_build_sindex"] = 1
    for ci, ops in enumerate(case["clients"]):
        for oi, o in enumerate(ops):
            exp, g = expected[ci][oi], got[ci][oi]
            if exp[0] == "exc":
                continue            # not comparable: the sequential twin fails as well
            if g is None:
                raise HarnessError("client did not finish")
            if g[0] == "exc":
                sig.update({"op": o["op"], "where": g[3], "exc": g[1],
                            "with_pickle": "pickle" in allops})
                return result(False, f"concurrent-exception@{g[3]}",
                              f"client {ci} op {o['op']} on a shared {case['object']} raised "
                              f"{g[1]}: {g[2]} (in {g[3]}) while {len(case['clients'])} clients "
                              f"ran {sorted(allops)}; a single-threaded caller gets a result",
                              sig, digest, True, probes, **st)
            if g[1] != exp[1]:
                sig.update({"op": o["op"], "with_pickle": "pickle" in allops})
                return result(False, "concurrent-wrong-result",
                              f"client {ci} op {o['op']} box={o['box']} on a shared "
                              f"{case['object']}: got {str(g[1])[:200]} expected {str(exp[1])[:200]}",
                              sig, digest, True, probes, **st)
    if modified:
        sig["op"] = "shared-object"
        return result(False, "concurrent-shared-object-modified",
                      f"after {len(case['clients'])} clients ran {sorted(allops)} (all read-only) "
                      f"the {modified}", sig, digest, True, probes, **st)
    return result(True, digest=digest, nontrivial=sim.switches > 0, probes=probes, **st)


# ---------------------------------------------------------------------- numba
def _run_numba(case):
    import hashlib

    import numba
    probes = {"kind_numba": 1}
    kind = case["geom"]
    arr = gen.build_array(kind, case["values"])
    box = tuple(case["box"])
    r = case["right"]
    shape = gen.build_array(r["kind"], r["values"])[0]

    bigarr = None
    if case.get("big"):
        import math
        b = case["big"]
        ring = []
        for i in range(b["n"]):
            t = 2.0 * math.pi * i / b["n"]
            ring += [8.0 + b["r"] * math.cos(t), 8.0 + b["r"] * math.sin(t)]
        ring += ring[:2]
        el = {"polygon": [ring], "multipolygon": [[ring]], "line": ring, "multiline": [ring]}[b["geom"]]
        bigarr = gen.build_array(b["geom"], [el, None, el])
        probes["numba_very_long_ring"] = 1

    def compute():
        if bigarr is not None:
            return [tuple(models.freeze(float(v)) for v in bigarr.total_bounds),
                    [models.freeze(float(v)) for v in bigarr.area],
                    [models.freeze(float(v)) for v in bigarr.length],
                    e2.np_rows(bigarr.bounds),
                    [bool(v) for v in bigarr.intersects_bounds(box)]] + compute_small()
        return compute_small()

    def compute_small():
        out = [[bool(v) for v in arr.intersects_bounds(box)],
               [models.freeze(float(v)) for v in arr.area],
               [models.freeze(float(v)) for v in arr.length],
               e2.np_rows(arr.bounds)]
        if kind == "point":
            out.append([bool(v) for v in arr.intersects(shape)])
            out.append([bool(v) for v in arr.intersects(shape, inds=np.arange(len(arr))[::2])])
        return out
    effective = seams.numba_sweep_effective()
    probes["numba_sweep_effective" if effective else "numba_sweep_NOT_effective"] = 1
    prev = numba.get_num_threads()
    maxt = numba.config.NUMBA_NUM_THREADS
    ref = None
    bad = None
    compared = 0
    try:
        for t in (1, 2, 4, 16):
            if t > maxt:
                continue
            numba.set_num_threads(t)
            for rep in range(2):
                out = compute()
                if ref is None:
                    ref = out
                elif out != ref and bad is None:
                    bad = ("numba-thread-count-dependent",
                           f"{kind} kernels with {t} numba threads differ from 1 thread: "
                           f"{_first_diff(ref, out)}")
                compared += 1
    finally:
        numba.set_num_threads(prev)
    digest = hashlib.sha256(repr((kind, case["values"], box)).encode()).hexdigest()[:16]
    probes["numba_thread_counts_compared"] = compared
    if bad:
        return result(False, bad[0], bad[1], {"kind": "numba", "geom": kind}, digest, True, probes)
    return result(True, digest=digest, nontrivial=compared >= 4 and effective, probes=probes,
                  events=compared)


def sample(case, res):
    out = {"seed": case["seed"], "kind": case["kind"], "digest": res["digest"],
           "events": res["events"], "context_switches": res["switches"]}
    if case["kind"] == "sched":
        out.update({"workload": case["workload"], "rows": case["frame"]["n"],
                    "schedules": case["schedules"]})
    elif case["kind"] == "clients":
        out.update({"object": case["object"], "clients": case["clients"], "line_p": case["line_p"],
                    "sim": case["sim"]})
    else:
        out.update({"geom": case["geom"], "n": len(case["values"])})
    return out


def shrink_candidates(case):
    c = case
    if c["kind"] == "sched":
        if len(c["schedules"]) > 1:
            for i in range(len(c["schedules"])):
                d = copy.deepcopy(c)
                d["schedules"] = [c["schedules"][i]]
                yield d
        for i, sc in enumerate(c["schedules"]):
            if sc.get("fine"):
                d = copy.deepcopy(c)
                d["schedules"][i]["fine"] = False
                yield d
    elif c["kind"] == "clients":
        if len(c["clients"]) > 2:
            for i in range(len(c["clients"])):
                d = copy.deepcopy(c)
                del d["clients"][i]
                yield d
        for i, ops in enumerate(c["clients"]):
            if len(ops) > 1:
                for j in range(len(ops)):
                    d = copy.deepcopy(c)
                    del d["clients"][i][j]
                    yield d
        n = c["frame"]["n"]
        if n > 1:
            for keep in (list(range(n // 2)), list(range(n // 2, n))):
                if keep:
                    d = copy.deepcopy(c)
                    d["frame"] = gen.shrink_spec_rows(c["frame"], keep)
                    d["parts"] = {"mode": "even", "k": 1}
                    yield d
