"""C06 - a Dask geo frame answers exactly like the pandas frame it represents.
Engine E2 (+E3 for the parquet provenances): the Dask frame is a partitioned replica;
every query graph is run by the simulated executor; the oracle is the property's own -
the same operation on the concatenated pandas frame with the same active geometry,
rebuilt *fresh from row records* so that no cached index or buffer is shared."""
from __future__ import annotations

import copy
import math
import os
import random
from collections import Counter

import numpy as np
import pandas as pd

from .. import e1, e2, gen, models, seams
from ..core import HarnessError
from ..runner import mix, result

PROP = "C06"
LEVEL = "exploration"
RULE = ("one case = frame spec + input partitioning + a history of provenance steps (filter, "
        "set_geometry, column selection, persist, build_sindex, pack_partitions, parquet round trip "
        "via to_parquet or pack_partitions_to_parquet re-read with/without geometry= and bounds=) with "
        "3-5 queries after every step (cx, cx_partitions, bounds, total_bounds, area, length, "
        "intersects_bounds, sjoin inner/left), all drawn from splitmix64(VERIF_SEED, run index) and "
        "executed by the simulated executor (and SimFS for the parquet steps). Non-trivial: >= 1 "
        "provenance step beyond from_pandas and >= 1 context switch; distinct = distinct event-log "
        "digests.")
ASSUMPTIONS = [
    "oracle = the same operation on a fresh pandas GeoDataFrame rebuilt from the row records of "
    "the partitions (never sharing arrays or spatial indexes with the Dask frame)",
    "after every provenance step the partitions of the Dask frame are compared (as a row multiset) "
    "with the rows expected from the model; the observed partition structure is then adopted",
    "query boxes have positive width and height; sjoin only with a point column active on the left",
    "storage never fails here (faults are C19)",
]
COMPONENTS = {
    "real": ["spatialpandas (from /repo)", "dask collections and graph optimisation", "pandas",
             "pyarrow parquet (parquet steps)", "numba kernels"],
    "simulated": ["Dask executor (workers, order, overlap, stalls)", "storage (SimFS) for parquet "
                  "steps", "uuid4", "listing order"],
}
EXPECTED_PROBES = ["empty_partition", "partition_only_inert_rows", "partition_covered_by_box",
                   "step_filter", "step_set_geometry", "step_pack", "step_parquet",
                   "step_parquet_bounds", "step_parquet_geometry", "step_parquet_columns_reordered",
                   "step_assign_in_place",
                   "query_sjoin", "query_cx",
                   "query_other_geometry_series"]

QUERIES = ("cx", "cx", "cx_series", "cx_partitions", "bounds", "total_bounds", "area", "length",
           "intersects_bounds", "sjoin", "sjoin", "other_total_bounds", "other_cx")


# ------------------------------------------------------------------ generation
def gen_right(rng):
    n = rng.randint(1, 4) if rng.random() < 0.6 else rng.randint(5, 9)
    kind = rng.choice(("polygon", "polygon", "multipolygon", "line", "multipoint"))
    vals = [gen.gen_element(rng, kind) for _ in range(n)]
    if rng.random() < 0.4:
        # the whole right frame well inside the left frame's extent (quarter-unit grid, still
        # exact): some left partitions then cover the extent of the right frame's index
        def rec(v):
            if isinstance(v, list) and v and isinstance(v[0], list):
                return [rec(x) for x in v]
            return [4.0 + c / 2.0 for c in v]
        vals = [rec(v) for v in vals]
    fit = rng.random() < 0.35
    return {"kind": kind, "fit": fit, "values": vals, "rv": list(range(900, 900 + n)),
            "v": [rng.randint(0, 5) for _ in range(n)]}


def gen_steps(rng, frame, tier):
    geo = [c["name"] for c in frame["cols"]]
    steps = []
    nsteps = rng.randint(0, 4 if tier == "quick" else 6)
    have_parquet = False
    for _ in range(nsteps):
        op = rng.choice(("filter", "filter", "set_geometry", "select", "persist", "build_sindex",
                         "pack", "parquet", "parquet", "assign"))
        if op == "filter":
            steps.append({"op": "filter", "col": "s", "val": rng.choice(("a", "b", "c"))}
                         if rng.random() < 0.6 else
                         {"op": "filter", "col": "v", "mod": rng.choice((2, 3)), "rem": 0})
        elif op == "set_geometry":
            steps.append({"op": "set_geometry", "col": rng.choice(geo)})
        elif op == "select":
            steps.append({"op": "select", "drop": rng.choice(("s", "v", None))})
        elif op == "pack":
            steps.append({"op": "pack", "n": rng.choice((1, 2, 3, 5)), "p": rng.choice((4, 10))})
        elif op == "parquet":
            if have_parquet and tier == "quick":
                continue
            have_parquet = True
            steps.append({"op": "parquet", "writer": rng.choice(("to_parquet", "pack")),
                          "n": rng.choice((2, 3, 5)), "geometry": rng.choice([None] + geo),
                          "bounds": gen.gen_box(rng) if rng.random() < 0.5 else None,
                          "colperm": rng.getrandbits(16) | 1 if rng.random() < 0.4 else 0})
        else:
            steps.append({"op": op})
    return steps


def cases(tier, base_seed):
    i = 0
    while True:
        seed = mix(base_seed, i)
        rng = random.Random(seed)
        n = rng.choice((0, 1, 3, 6, 10, 16, 25, 40))
        kinds = [rng.choice(models.KINDS) for _ in range(rng.choice((1, 2, 2, 3)))]
        if rng.random() < 0.6 and "point" not in kinds:
            kinds[rng.randrange(len(kinds))] = "point"
        frame = gen.gen_frame_spec(rng, n, kinds=kinds,
                                   index_kind=rng.choice(("default", "named", "nonunique", "nearsorted")))
        k = rng.randint(1, max(1, min(8, n)))
        parts = ({"mode": "splits", "splits": gen.gen_splits(rng, n, k)} if rng.random() < 0.5
                 else {"mode": "even", "k": k})
        steps = gen_steps(rng, frame, tier)
        nq = 3 + len(steps) * 3
        queries = []
        for _ in range(nq):
            queries.append({"q": rng.choice(QUERIES), "box": gen.gen_box(rng),
                            "omit": rng.choice((None, None, None, "x0", "x1", "y0", "y1")),
                            "how": rng.choice(("inner", "left")), "align": rng.random() < 0.4})
        yield {"seed": seed, "frame": frame, "parts": parts, "steps": steps, "queries": queries,
               "right": gen_right(rng), "sim": e1.gen_sim_cfg(rng),
               "store": e1.gen_store_cfg(rng)}
        i += 1


def warmup():
    n = 0
    for c in cases("quick", 515151):
        if c["frame"]["n"] >= 6:
            run_case(c)
            n += 1
        if n >= 2:
            break


# ----------------------------------------------------------------------- model
def snapshot(df):
    """Row records of a pandas partition, independent of its arrays."""
    from spatialpandas.geometry import GeometryDtype
    geo, other = {}, {}
    for c in df.columns:
        s = df[c]
        if isinstance(s.dtype, GeometryDtype):
            geo[c] = (models.kind_of(s.array), s.array.numpy_dtype.name,
                      models.array_values(s.array))
        else:
            other[c] = s.tolist()
    return {"geo": geo, "other": other, "order": list(df.columns),
            "index": df.index.tolist(), "index_name": df.index.name, "n": len(df)}


def rebuild(snaps, active, template):
    """Fresh GeoDataFrame = concatenation of the snapshots, active geometry `active`."""
    from spatialpandas import GeoDataFrame
    order = template["order"]
    data = {}
    for c in order:
        if c in template["geo"]:
            kind, subtype, _ = template["geo"][c]
            vals = [v for s in snaps for v in s["geo"][c][2]]
            data[c] = gen.build_array(kind, vals, subtype)
        else:
            data[c] = [v for s in snaps for v in s["other"][c]]
    index = pd.Index([v for s in snaps for v in s["index"]], name=template["index_name"])
    if not len(index):
        index = pd.Index([], name=template["index_name"], dtype="int64")
    return GeoDataFrame(data, index=index, geometry=active)


def snap_records(s, with_index=True):
    cols = []
    for c in s["order"]:
        if c in s["geo"]:
            cols.append([models.freeze(v) for v in s["geo"][c][2]])
        else:
            cols.append([models.cell(v) for v in s["other"][c]])
    out = []
    for i in range(s["n"]):
        r = tuple(col[i] for col in cols)
        out.append(((models.cell(s["index"][i]),) + r) if with_index else r)
    return out


def snap_extent(s, col):
    kind, _, vals = s["geo"][col]
    return models.tight_total_bounds(kind, vals)


def snap_filter(s, keep):
    out = {"geo": {c: (k, st, [v for v, m in zip(vals, keep) if m])
                   for c, (k, st, vals) in s["geo"].items()},
           "other": {c: [v for v, m in zip(vals, keep) if m] for c, vals in s["other"].items()},
           "order": list(s["order"]), "index": [v for v, m in zip(s["index"], keep) if m],
           "index_name": s["index_name"], "n": sum(1 for m in keep if m)}
    return out


def snap_select(s, cols):
    return {"geo": {c: v for c, v in s["geo"].items() if c in cols},
            "other": {c: v for c, v in s["other"].items() if c in cols},
            "order": [c for c in s["order"] if c in cols], "index": list(s["index"]),
            "index_name": s["index_name"], "n": s["n"]}


def overlaps(ext, box):
    x0, y0, x1, y1 = box
    if x0 > x1:
        x0, x1 = x1, x0
    if y0 > y1:
        y0, y1 = y1, y0
    if any(math.isnan(v) for v in ext):
        return False
    return not (ext[2] < x0 or ext[3] < y0 or ext[0] > x1 or ext[1] > y1)


# ------------------------------------------------------------------- execution
class Bad(Exception):
    def __init__(self, cls, msg):
        super().__init__(msg)
        self.cls, self.msg = cls, msg


def run_case(case):
    seed = case["seed"]
    sim = e1.new_sim(seed, case["sim"])
    probes = {}
    sig = {}
    bad = None
    with seams.scratch(f"c06-{seed}") as root:
        store, fs = e1.new_store(sim, root, case["store"])
        try:
            with seams.installed(sim, store):
                _drive(case, root, fs, probes, sig)
        except HarnessError:
            raise
        except Bad as b:
            bad = (b.cls, b.msg)
        st = {"events": sim.n_events, "switches": sim.switches, "sim_time": sim.now,
              "tasks": len(sim.tasks)}
        digest = sim.digest()
    if bad is not None:
        return result(False, bad[0], bad[1], sig, digest, True, probes, **st)
    return result(True, digest=digest, nontrivial=bool(case["steps"]) and sim.switches > 0,
                  probes=probes, **st)


def _guard(what, fn, sig):
    """Run a library operation; an exception where the pandas model succeeds is a violation."""
    try:
        return fn()
    except (HarnessError, Bad):
        raise
    except Exception as e:  # noqa: BLE001
        import traceback
        tb = traceback.extract_tb(e.__traceback__)
        where = next((f"{os.path.basename(f.filename)}:{f.name}" for f in reversed(tb)
                      if seams.SP_DIR in f.filename), "?")
        sig["where"] = where
        inner = tb[-1].filename if tb else ""
        sig["raised_in_dask_or_pandas"] = ("/site-packages/pandas/" in inner
                                           or "/site-packages/dask/" in inner)
        raise Bad(f"exception@{what}@{where}",
                  f"{what} raised {type(e).__name__}: {str(e)[:240]} (in {where})") from None


def _sync(ddf, expected_records, probes, sig, what, with_index=True):
    """Partitions of the Dask frame -> snapshots; rows must equal the model's expectation."""
    parts = _guard(f"compute partitions after {what}", lambda: e2.partitions_of(ddf), sig)
    snaps = [snapshot(p) for p in parts]
    got = Counter(r for s in snaps for r in snap_records(s, with_index))
    if expected_records is not None and got != expected_records:
        missing = list((expected_records - got).elements())[:3]
        extra = list((got - expected_records).elements())[:3]
        sig["step"] = what
        raise Bad(f"provenance-rows@{what}", f"after {what} the Dask frame holds "
                  f"{sum(got.values())} rows, the model {sum(expected_records.values())}; "
                  f"missing={missing} extra={extra}")
    if any(s["n"] == 0 for s in snaps) and len(snaps) > 1:
        probes["empty_partition"] = 1
    return snaps


_RUN = {}


def _drive(case, root, fs, probes, sig):
    from spatialpandas.io import read_parquet_dask
    _RUN.clear()

    spec = case["frame"]
    gdf = gen.build_frame(spec)
    ddf = e1.make_ddf(gdf, case["parts"])
    active = spec["active"]
    want = Counter(gen.spec_records(spec, with_index=True, cols=list(gdf.columns)))
    snaps = _sync(ddf, want, probes, sig, "from_pandas")
    template = snapshot(gdf.iloc[:0])
    qi = 0

    def run_queries(k):
        nonlocal qi
        for _ in range(k):
            if qi >= len(case["queries"]):
                return
            q = case["queries"][qi]
            qi += 1
            _query(q, ddf, snaps, active, template, case, probes, sig, packed)
    packed = False
    run_queries(3)
    lazy_shuffle = False
    nfilters = 0
    dup0 = False
    for si, step in enumerate(case["steps"]):
        op = step["op"]
        sig["last_step"] = op
        probes[f"step_{op}"] = 1
        if op == "filter":
            if step["col"] not in template["other"]:
                continue
            # bookkeeping for the known findings (only for steps that really execute)
            if lazy_shuffle:
                sig["filter_after_lazy_shuffle"] = True
            if nfilters == 0:
                allidx = [v for s in snaps for v in s["index"]]
                dup0 = len(set(map(str, allidx))) < len(allidx)
            nfilters += 1
            if nfilters >= 2:
                sig["two_or_more_chained_filters"] = True
                if dup0:
                    sig["index_had_duplicates_before_the_filters"] = True
            if "val" in step:
                ddf = ddf[ddf[step["col"]] != step["val"]]
                keepf = lambda s: [v != step["val"] for v in s["other"][step["col"]]]  # noqa: E731
            else:
                ddf = ddf[ddf[step["col"]] % step["mod"] != step["rem"]]
                keepf = lambda s: [v % step["mod"] != step["rem"]  # noqa: E731
                                   for v in s["other"][step["col"]]]
            exp = [snap_filter(s, keepf(s)) for s in snaps]
            want = Counter(r for s in exp for r in snap_records(s))
            snaps = _sync(ddf, want, probes, sig, "filter")
        elif op == "set_geometry":
            ddf = _guard("set_geometry", lambda: ddf.set_geometry(step["col"]), sig)
            active = step["col"]
            want = Counter(r for s in snaps for r in snap_records(s))
            snaps = _sync(ddf, want, probes, sig, "set_geometry")
        elif op == "select":
            cols = [c for c in template["order"] if c != step["drop"]]
            ddf = ddf[cols]
            snaps_e = [snap_select(s, cols) for s in snaps]
            template = snap_select(template, cols)
            want = Counter(r for s in snaps_e for r in snap_records(s))
            snaps = _sync(ddf, want, probes, sig, "select")
        elif op == "persist":
            ddf = _guard("persist", lambda: ddf.persist(), sig)
            lazy_shuffle = False
            nfilters = 0
            sig.pop("filter_after_lazy_shuffle", None)
            want = Counter(r for s in snaps for r in snap_records(s))
            snaps = _sync(ddf, want, probes, sig, "persist")
        elif op == "assign":
            # an ordinary column changed IN PLACE on the same collection object (which has
            # answered queries before): later queries see the frame as it is now
            if lazy_shuffle or "v" not in template["other"]:
                continue

            def assign():
                ddf["v"] = ddf["v"] + 1000
            _guard("ddf['v'] = ddf['v'] + 1000", assign, sig)
            snaps = [dict(s_, other=dict(s_["other"], v=[x + 1000 for x in s_["other"]["v"]]))
                     for s_ in snaps]
            probes["step_assign_in_place"] = 1
            want = Counter(r for s in snaps for r in snap_records(s))
            snaps = _sync(ddf, want, probes, sig, "assign")
        elif op == "build_sindex":
            ddf = _guard("build_sindex", lambda: ddf.build_sindex(), sig)
            want = Counter(r for s in snaps for r in snap_records(s))
            snaps = _sync(ddf, want, probes, sig, "build_sindex")
        elif op == "pack":
            if sum(s["n"] for s in snaps) == 0 or template["index_name"] == "hilbert_distance":
                # re-packing a frame whose index is already called hilbert_distance is not a
                # provenance the property lists (Dask then keeps an extra column)
                continue
            try:
                new = ddf.pack_partitions(npartitions=step["n"], p=step["p"])
                new.compute()
            except HarnessError:
                raise
            except Exception:  # noqa: BLE001 - C09: a raising pack claims nothing
                probes["pack_raised"] = 1
                continue
            ddf = new
            packed = True
            lazy_shuffle = True
            nfilters = 0
            want = Counter(r for s in snaps for r in snap_records(s, False))
            snaps = _sync(ddf, want, probes, sig, "pack_partitions", with_index=False)
            template = dict(template, index_name="hilbert_distance")
        elif op == "parquet":
            if sum(s["n"] for s in snaps) == 0:
                continue
            path = os.path.join(root, f"ds{si}")
            if step["writer"] == "to_parquet":
                if lazy_shuffle and sig.get("filter_after_lazy_shuffle"):
                    # known finding F06: the writer records bounds from another graph than
                    # the one that writes the partitions
                    sig["wrote_lazy_filtered_frame"] = True
                _guard("to_parquet", lambda: ddf.to_parquet("simfs://" + path), sig)
                want = Counter(r for s in snaps for r in snap_records(s))
                widx = True
            else:
                if template["index_name"] == "hilbert_distance":
                    continue

                def w():
                    return ddf.pack_partitions_to_parquet(path, filesystem=fs,
                                                          npartitions=step["n"], p=6)
                _guard("pack_partitions_to_parquet", w, sig)
                packed = True
                want = Counter(r for s in snaps for r in snap_records(s, False))
                template = dict(template, index_name="hilbert_distance")
                widx = False
            ddf = _guard("read_parquet_dask", lambda: read_parquet_dask(path, filesystem=fs), sig)
            # a plain re-read activates the first geometry column
            first_geo = next(c for c in template["order"] if c in template["geo"])
            active = first_geo
            snaps = _sync(ddf, want, probes, sig, f"parquet[{step['writer']}]", with_index=widx)
            lazy_shuffle = False          # the re-read frame is materialised storage
            nfilters = 0
            sig.pop("filter_after_lazy_shuffle", None)
            if step.get("geometry") in template["geo"] or step.get("bounds"):
                geom = step.get("geometry") if step.get("geometry") in template["geo"] else None
                box = step.get("bounds")
                kw = {}
                if geom:
                    kw["geometry"] = geom
                    probes["step_parquet_geometry"] = 1
                    if step.get("colperm"):
                        # all columns, asked for in another order, together with geometry=:
                        # the frame still represents the same rows with that active column
                        perm = list(template["order"])
                        random.Random(step["colperm"]).shuffle(perm)
                        kw["columns"] = perm
                        template = dict(template, order=perm)
                        snaps = [dict(s_, order=perm) for s_ in snaps]
                        probes["step_parquet_columns_reordered"] = 1
                if box:
                    kw["bounds"] = tuple(box)
                    probes["step_parquet_bounds"] = 1
                ddf = _guard("read_parquet_dask(geometry/bounds)",
                             lambda: read_parquet_dask(path, filesystem=fs, **kw), sig)
                active = geom or first_geo
                sig["geometry_kw"] = bool(geom)
                sig["bounds_kw"] = bool(box)
                if box:
                    # which partitions pruning keeps is C12's business; here the frame
                    # "represents" whatever was loaded: whole stored partitions only
                    pool = [Counter(snap_records(s, widx)) for s in snaps]
                    new = _sync(ddf, None, probes, sig, "parquet-reread", with_index=widx)
                    for s in new:
                        if s["n"] and Counter(snap_records(s, widx)) not in pool:
                            raise Bad("provenance-rows@parquet-reread",
                                      "a partition loaded with bounds= is not a stored partition")
                    snaps = new
                else:
                    want = Counter(r for s in snaps for r in snap_records(s, widx))
                    snaps = _sync(ddf, want, probes, sig, "parquet-reread", with_index=widx)
        run_queries(3)


def _query(q, ddf, snaps, active, template, case, probes, sig, packed):
    from spatialpandas import GeoDataFrame, sjoin
    kind = q["q"]
    sig["query"] = kind

    M = rebuild(snaps, active, template)
    akind = template["geo"][active][0]
    box = list(q["box"])
    if q["align"]:
        # align the box with the extent of one partition (covered / touching cases)
        exts = [snap_extent(s, active) for s in snaps if s["n"]]
        exts = [e for e in exts if not any(math.isnan(v) for v in e)]
        if exts:
            e = exts[(case["seed"] + len(exts)) % len(exts)]
            if e[2] > e[0] and e[3] > e[1]:
                box = [e[0], e[1], e[2], e[3]]
    x0, y0, x1, y1 = box
    for s in snaps:
        if s["n"]:
            ext = snap_extent(s, active)
            if not any(math.isnan(v) for v in ext) and x0 <= ext[0] and y0 <= ext[1] \
                    and ext[2] <= x1 and ext[3] <= y1:
                probes["partition_covered_by_box"] = 1
            if all(models.is_inert(akind, v) for v in s["geo"][active][2]):
                probes["partition_only_inert_rows"] = 1
    sl = {"x0": x0, "x1": x1, "y0": y0, "y1": y1}
    if q["omit"]:
        sl[q["omit"]] = None
    xs, ys = slice(sl["x0"], sl["x1"]), slice(sl["y0"], sl["y1"])
    sig["active_kind"] = akind

    def cmp_frames(got, exp, what, ordered=True):
        g, e = e2.recs(got), e2.recs(exp)
        if list(got.columns) != list(exp.columns):
            raise Bad(f"columns@{what}", f"{what}: columns {list(got.columns)} != {list(exp.columns)}")
        same = (g == e) if (ordered and not packed) else (Counter(g) == Counter(e))
        if not same:
            extra = list((Counter(g) - Counter(e)).elements())[:3]
            missing = list((Counter(e) - Counter(g)).elements())[:3]
            raise Bad(f"mismatch@{what}", f"{what} box={box} omit={q['omit']}: Dask gives "
                      f"{len(g)} rows, pandas {len(e)}; extra={extra} missing={missing}"
                      + ("" if extra or missing else " (same rows, different order)"))

    if kind in ("cx", "cx_series"):
        probes["query_cx"] = 1
        if kind == "cx":
            got = _guard("cx", lambda: ddf.cx[xs, ys].compute(), sig)
            exp = M.cx[xs, ys]
            cmp_frames(got, exp, "cx")
        else:
            got = _guard("series.cx", lambda: ddf.geometry.cx[xs, ys].compute(), sig)
            exp = M.geometry.cx[xs, ys]
            cmp_frames(got.to_frame(), exp.to_frame(), "series.cx")
    elif kind == "cx_partitions":
        got = _guard("cx_partitions", lambda: e2.partitions_of(ddf.cx_partitions[xs, ys]), sig)
        exp = M.cx[xs, ys]
        pool = [Counter(snap_records(s)) for s in snaps]
        allrows = Counter()
        for g in got:
            c = Counter(e2.recs(g))
            allrows.update(c)
            if len(g) and c not in pool:
                raise Bad("cx_partitions-not-whole", f"cx_partitions box={box}: a returned "
                          f"partition of {len(g)} rows is not a whole partition of the frame")
        need = Counter(e2.recs(exp))
        if need - allrows:
            raise Bad("cx_partitions-lost-rows", f"cx_partitions box={box} omit={q['omit']}: "
                      f"intersecting rows not returned: {list((need - allrows).elements())[:3]}")
    elif kind in ("other_total_bounds", "other_cx"):
        # a geometry column that is not the active one: its series carries its own
        # partition bounds (propagated from the frame's cache when there is one)
        others = [c for c in template["order"] if c in template["geo"] and c != active]
        if not others:
            return
        oc = others[case["seed"] % len(others)]
        probes["query_other_geometry_series"] = 1
        sig["other_column"] = True
        if kind == "other_total_bounds":
            got = _guard("series[other].total_bounds", lambda: ddf[oc].total_bounds, sig)
            exp = M[oc].total_bounds
            if not models.bounds_equal(tuple(got), tuple(exp)):
                raise Bad("mismatch@other_total_bounds", f"total_bounds of the non-active "
                          f"geometry column {oc!r}: {tuple(got)} vs pandas {tuple(exp)}")
        else:
            got = _guard("series[other].cx", lambda: ddf[oc].cx[xs, ys].compute(), sig)
            exp = M[oc].cx[xs, ys]
            cmp_frames(got.to_frame(), exp.to_frame(), "series[other].cx")
    elif kind == "bounds":
        got = _guard("bounds", lambda: ddf.geometry.bounds.compute(), sig)
        exp = M.geometry.bounds
        if e2.np_rows(got.values) != e2.np_rows(exp.values) and not packed:
            raise Bad("mismatch@bounds", f"bounds differ: {got.values.tolist()[:4]} vs "
                      f"{exp.values.tolist()[:4]}")
        if packed and Counter(e2.np_rows(got.values)) != Counter(e2.np_rows(exp.values)):
            raise Bad("mismatch@bounds", "bounds differ as multisets")
    elif kind == "total_bounds":
        got = _guard("total_bounds", lambda: ddf.geometry.total_bounds, sig)
        exp = M.geometry.total_bounds
        if not models.bounds_equal(tuple(got), tuple(exp)):
            raise Bad("mismatch@total_bounds", f"total_bounds {tuple(got)} vs pandas {tuple(exp)}")
    elif kind in ("area", "length"):
        got = _guard(kind, lambda: getattr(ddf.geometry, kind).compute(), sig)
        exp = getattr(M.geometry, kind)
        a, b = [float(v) for v in got.tolist()], [float(v) for v in exp.tolist()]
        ok = e2.values_close(a, b) if not packed else \
            Counter(map(models.freeze, a)) == Counter(map(models.freeze, b))
        if not ok:
            raise Bad(f"mismatch@{kind}", f"{kind}: {a[:6]} vs pandas {b[:6]}")
    elif kind == "intersects_bounds":
        got = _guard("intersects_bounds",
                     lambda: ddf.geometry.intersects_bounds(tuple(box)).compute(), sig)
        exp = M.geometry.intersects_bounds(tuple(box))
        a, b = [bool(v) for v in got.tolist()], [bool(v) for v in exp.tolist()]
        ok = (a == b) if not packed else Counter(a) == Counter(b)
        if not ok:
            raise Bad("mismatch@intersects_bounds", f"intersects_bounds box={box}: {a} vs {b}")
    elif kind == "sjoin":
        if akind != "point":
            return
        probes["query_sjoin"] = 1
        r = case["right"]

        if "right_vals" not in _RUN:
            vals = r["values"]
            exts = [snap_extent(s_, active) for s_ in snaps if s_["n"]]
            exts = [e_ for e_ in exts if not any(math.isnan(v) for v in e_)
                    and e_[2] > e_[0] and e_[3] > e_[1]]
            if r.get("fit") and exts:
                # the right frame squeezed into the extent of one left partition (dyadic
                # scaling, exact): that partition covers the whole extent of the right index
                e_ = exts[case["seed"] % len(exts)]

                def rec(v, e_=e_):
                    if isinstance(v, list) and v and isinstance(v[0], list):
                        return [rec(x) for x in v]
                    return [e_[j % 2] + (c / 16.0) * (e_[2 + j % 2] - e_[j % 2])
                            for j, c in enumerate(v)]
                vals = [rec(v) for v in vals]
                probes["right_frame_inside_one_partition_extent"] = 1
            _RUN["right_vals"] = vals

        def mk():
            return GeoDataFrame({"rg": gen.build_array(r["kind"], _RUN["right_vals"]),
                                 "rv": r["rv"], "v": r["v"]})
        # the Dask joins of one run all use ONE right frame (whatever a join caches on it, or
        # does to it, the next join meets); the pandas oracle gets a fresh one every time
        if _RUN.get("right") is None:
            _RUN["right"] = mk()
        else:
            probes["sjoin_right_frame_reused"] = 1
        right = _RUN["right"]
        how = q["how"]
        sig["how"] = how
        got = _guard(f"sjoin[{how}]", lambda: sjoin(ddf, right, how=how).compute(), sig)
        exp = _guard(f"pandas-sjoin[{how}]", lambda: sjoin(M, mk(), how=how), sig)
        g, e = Counter(e2.recs(got)), Counter(e2.recs(exp))
        if sorted(got.columns) != sorted(exp.columns):
            raise Bad("columns@sjoin", f"sjoin columns {list(got.columns)} vs {list(exp.columns)}")
        got = got[list(exp.columns)]
        g = Counter(e2.recs(got))
        if g != e:
            raise Bad("mismatch@sjoin", f"sjoin how={how}: Dask {sum(g.values())} rows, pandas "
                      f"{sum(e.values())}; extra={list((g - e).elements())[:2]} "
                      f"missing={list((e - g).elements())[:2]}")


def sample(case, res):
    f = case["frame"]
    return {"seed": case["seed"], "rows": f["n"], "active": f["active"],
            "geometry_columns": [(c["name"], c["kind"]) for c in f["cols"]],
            "input_partitions": case["parts"], "steps": case["steps"],
            "queries": [(q["q"], q["box"], q["omit"]) for q in case["queries"][:6]],
            "sim": case["sim"], "logical_tasks": res["tasks"],
            "context_switches": res["switches"], "digest": res["digest"]}


def shrink_candidates(case):
    c = case
    ref = {"workers": 1, "strategy": "inorder", "switch_p": 0.0, "stall": False}
    if c["sim"] != ref:
        d = copy.deepcopy(c)
        d["sim"] = ref
        yield d
    # fewer steps (the queries are consumed 3 per step: drop them together)
    for i in range(len(c["steps"])):
        d = copy.deepcopy(c)
        del d["steps"][i]
        del d["queries"][3 + 3 * i: 6 + 3 * i]
        yield d
    # fewer queries: keep one at a time in its slot by turning the others into cheap ones
    for i, q in enumerate(c["queries"]):
        if q["q"] != "total_bounds":
            d = copy.deepcopy(c)
            d["queries"][i] = dict(q, q="total_bounds")
            yield d
    if c["parts"] != {"mode": "even", "k": 1}:
        d = copy.deepcopy(c)
        d["parts"] = {"mode": "even", "k": 1}
        yield d
    n = c["frame"]["n"]
    if n > 1 and c["parts"]["mode"] == "even":
        size = n // 2
        while size >= 1:
            for s in range(0, n, size):
                keep = [i for i in range(n) if not (s <= i < s + size)]
                if keep:
                    d = copy.deepcopy(c)
                    d["frame"] = gen.shrink_spec_rows(c["frame"], keep)
                    d["parts"] = {"mode": "even", "k": max(1, min(c["parts"]["k"], len(keep)))}
                    yield d
            size //= 2
    if len(c["frame"]["cols"]) > 1:
        used = {s.get("col") for s in c["steps"]} | {s.get("geometry") for s in c["steps"]}
        for col in c["frame"]["cols"]:
            if col["name"] != c["frame"]["active"] and col["name"] not in used:
                d = copy.deepcopy(c)
                d["frame"]["cols"] = [x for x in d["frame"]["cols"] if x["name"] != col["name"]]
                d["frame"]["order"] = [x for x in d["frame"]["order"] if x != col["name"]]
                yield d
    if c["frame"]["index"]["kind"] != "default":
        d = copy.deepcopy(c)
        d["frame"]["index"] = {"kind": "default"}
        yield d
    for q in range(len(c["queries"])):
        if c["queries"][q].get("align") or c["queries"][q].get("omit"):
            d = copy.deepcopy(c)
            d["queries"][q]["align"] = False
            d["queries"][q]["omit"] = None
            yield d
