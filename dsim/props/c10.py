"""C10 - pack_partitions_to_parquet leaves a complete, clean, re-readable dataset.
Engine E1, fault-free: schedules, worker counts, listing order, latency and store
modes vary; the storage never fails (that is C19)."""
from __future__ import annotations

import copy
import os
import random

from .. import e1, gen, seams
from ..core import HarnessError
from ..runner import mix, result

PROP = "C10"
LEVEL = "exploration"
RULE = ("one case = (frame spec, input partitioning, npartitions, p, temp-dir mode, compression, "
        "optional previous dataset + overwrite, simulated-scheduler config, store mode), all drawn "
        "from splitmix64(VERIF_SEED, run index); the real pack_partitions_to_parquet runs on SimFS "
        "under the simulated Dask executor. A run is non-trivial when it had >= 1 context switch; "
        "distinct = distinct event-log digests (every filesystem call, task start/finish and "
        "scheduling decision is in the log).")
ASSUMPTIONS = [
    "storage never fails in this check (faults are C19); only latency, interleaving at "
    "filesystem calls, listing order and store mode vary",
    "calls that reach SimFS from inside a pyarrow C++ call are atomic steps (no context switch)",
    "the Hilbert-distance oracle is an independent reference (classical curve over the bbox-centre "
    "cell, same float64 scaling) against the model's tight total bounds",
]
COMPONENTS = {
    "real": ["spatialpandas (from /repo)", "dask graph construction/optimisation", "pandas",
             "pyarrow parquet", "fsspec base class", "retrying", "numba kernels",
             "OS filesystem under the scratch root"],
    "simulated": ["Dask executor", "thread scheduling", "retrying's clock and sleep",
                  "uuid4", "directory listing order", "storage latency"],
}
EXPECTED_PROBES = ["empty_output_partition", "empty_output_with_external_tempdir",
                   "previous_dataset_overwritten", "ge_11_partitions", "missing_rows_present",
                   "packed_frame_repacked", "input_presorted_in_11_or_12_partitions",
                   "tempdir_next_to_dataset_sharing_its_path_prefix"]


def cases(tier, base_seed):
    i = 0
    while True:
        seed = mix(base_seed, i)
        rng = random.Random(seed)
        case = e1.gen_pack_case(rng, tier)
        case["seed"] = seed
        yield case
        i += 1


def warmup():
    rng = random.Random(12345)
    for _ in range(2):
        c = e1.gen_pack_case(rng, small=True)
        c["seed"] = 1
        run_case(c)


def run_case(case):
    seed = case["seed"]
    spec = case["frame"]
    with seams.scratch(f"c10-{seed}") as root:
        sim = e1.new_sim(seed, case["sim"])
        store, fs = e1.new_store(sim, root, case["store"])
        probes = {}
        exc = None
        res_df = nparts = None
        try:
            with seams.installed(sim, store):
                if case.get("prev"):
                    pv = case["prev"]
                    e1.do_pack(fs, root, gen.build_frame(pv["frame"]),
                               {"mode": "even", "k": 2}, pv["npartitions"], 6,
                               pv["tempdir"], "snappy", overwrite=False, tag="prev")
                    probes["previous_dataset_overwritten"] = 1
                gdf = gen.build_frame(spec)
                src = None
                if case.get("repack"):
                    rp = case["repack"]
                    src, _ = e1.do_pack(fs, root, gdf, case["parts"], rp["npartitions"], rp["p"],
                                        rp["tempdir"], "snappy", overwrite=False, tag="src",
                                        name="ds_src", lazy=True)
                    probes["packed_frame_repacked"] = 1
                    # a plain re-read activates the first geometry column: "the active
                    # geometry" of the frame being packed is what that frame reports
                    spec = dict(spec, active=src.geometry.name)
                res_df, nparts = e1.do_pack(
                    fs, root, gdf, case["parts"], case["npartitions"], case["p"],
                    case["tempdir"], case["compression"], overwrite=bool(case.get("prev")),
                    ddf=src)
        except HarnessError:
            raise
        except Exception as e:  # noqa: BLE001 - any exception of a fault-free run is a finding
            exc = e
        stats = e1.sim_stats(sim, store)
        digest = sim.digest()
        sig = {"tempdir": case["tempdir"], "prev": bool(case.get("prev")),
               "repack": bool(case.get("repack"))}
        if exc is not None:
            import traceback
            tb = traceback.extract_tb(exc.__traceback__)
            where = next((f"{os.path.basename(f.filename)}:{f.name}" for f in reversed(tb)
                          if seams.SP_DIR in f.filename), "?")
            sig["where"] = where
            sig["exc"] = type(exc).__name__
            return result(False, f"exception@{where}", f"fault-free run raised {type(exc).__name__}: "
                          f"{str(exc)[:300]} (in {where})", sig, digest, True, probes,
                          outcome="raised", **_st(stats))
        ds = e1.read_dataset(root)
        empties = e1.empty_outputs_expected(case["npartitions"], ds)
        sig["empty_outputs"] = empties
        if empties:
            probes["empty_output_partition"] = 1
            if case["tempdir"] != "inside":
                probes["empty_output_with_external_tempdir"] = 1
        if case["npartitions"] >= 11:
            probes["ge_11_partitions"] = 1
        if case["parts"].get("presorted"):
            probes["input_presorted_in_11_or_12_partitions"] = 1
        if case["tempdir"] == "ext_sibling":
            probes["tempdir_next_to_dataset_sharing_its_path_prefix"] = 1
        if any(v is None for v in gen.col_of(spec, spec["active"])["values"]):
            probes["missing_rows_present"] = 1
        bad = (e1.check_layout(ds, spec["n"]) or e1.check_rows(ds, spec, case["p"])
               or e1.check_returned(res_df, nparts, ds, spec))
        if bad is None and store.conflicts:
            # invariant during the run: no task touches a file another task is writing
            bad = ("concurrent-file-access", f"fault-free run: {store.conflicts[:3]}")
        if bad is None:
            # an independent re-read through a fresh, fault-free simulated store
            sim2 = e1.new_sim(seed ^ 0x5EED, case["sim"])
            store2, fs2 = e1.new_store(sim2, root, case["store"])
            try:
                with seams.installed(sim2, store2):
                    from spatialpandas.io import read_parquet_dask
                    rr = read_parquet_dask(os.path.join(root, "ds"), filesystem=fs2)
                    rdf = rr.compute()
                    bad = e1.check_returned(rdf, rr.npartitions, ds, spec, "independent re-read")
            except HarnessError:
                raise
            except Exception as e:  # noqa: BLE001
                bad = ("reread-exception", f"read_parquet_dask of the result raised "
                       f"{type(e).__name__}: {str(e)[:200]}")
        if bad is not None:
            return result(False, bad[0], bad[1], sig, digest, True, probes, **_st(stats))
        return result(True, digest=digest, nontrivial=sim.switches > 0, probes=probes,
                      **_st(stats))


def _st(stats):
    return {"events": stats["events"], "switches": stats["switches"],
            "sim_time": stats["sim_time"], "tasks": stats["tasks"], "faults": stats["faults"]}


def sample(case, res):
    f = case["frame"]
    return {"seed": case["seed"], "rows": f["n"],
            "geometry_columns": [(c["name"], c["kind"]) for c in f["cols"]],
            "active": f["active"], "input_partitions": case["parts"],
            "npartitions": case["npartitions"], "p": case["p"], "tempdir": case["tempdir"],
            "compression": case["compression"], "previous_dataset": bool(case["prev"]),
            "sim": case["sim"], "store": case["store"], "events": res["events"],
            "context_switches": res["switches"], "digest": res["digest"]}


def shrink_candidates(case):
    """Smaller cases: simpler schedule/store first, then fewer rows, fewer knobs."""
    c = case
    if c["sim"] != {"workers": 1, "strategy": "inorder", "switch_p": 0.0, "stall": False}:
        d = copy.deepcopy(c)
        d["sim"] = {"workers": 1, "strategy": "inorder", "switch_p": 0.0, "stall": False}
        yield d
    if c["store"].get("shuffle_ls") or c["store"].get("latency") != 0.005:
        d = copy.deepcopy(c)
        d["store"] = dict(c["store"], shuffle_ls=False, latency=0.005)
        yield d
    if c.get("prev"):
        d = copy.deepcopy(c)
        d["prev"] = None
        yield d
    if c.get("repack"):
        d = copy.deepcopy(c)
        d["repack"] = None
        yield d
    n = c["frame"]["n"]
    if c["parts"]["mode"] != "even" or c["parts"]["k"] != 1:
        d = copy.deepcopy(c)
        d["parts"] = {"mode": "even", "k": 1}
        yield d
    if n > 1 and c["parts"]["mode"] == "even":
        for chunk in _chunks(n):
            keep = [i for i in range(n) if i not in chunk]
            if keep:
                d = copy.deepcopy(c)
                d["frame"] = gen.shrink_spec_rows(c["frame"], keep)
                d["parts"] = {"mode": "even", "k": max(1, min(c["parts"]["k"], len(keep)))}
                yield d
    if len(c["frame"]["cols"]) > 1:
        for col in c["frame"]["cols"]:
            if col["name"] != c["frame"]["active"]:
                d = copy.deepcopy(c)
                d["frame"]["cols"] = [x for x in d["frame"]["cols"] if x["name"] != col["name"]]
                d["frame"]["order"] = [x for x in d["frame"]["order"] if x != col["name"]]
                yield d
    for npn in (1, 2, 3):
        if npn < c["npartitions"]:
            d = copy.deepcopy(c)
            d["npartitions"] = npn
            yield d
    if c["compression"] != "snappy":
        d = copy.deepcopy(c)
        d["compression"] = "snappy"
        yield d
    if c["frame"]["index"]["kind"] != "default":
        d = copy.deepcopy(c)
        d["frame"]["index"] = {"kind": "default"}
        yield d


def _chunks(n):
    size = n // 2
    while size >= 1:
        for s in range(0, n, size):
            yield set(range(s, min(n, s + size)))
        size //= 2
