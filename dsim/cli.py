"""check <ID> --tier quick|thorough | check <ID> --replay FILE | check selftest"""
import argparse
import os
import sys


def main(argv):
    ap = argparse.ArgumentParser(prog="check")
    ap.add_argument("prop")
    ap.add_argument("--tier", default=os.environ.get("VERIF_TIER", "quick"),
                    choices=["quick", "thorough"])
    ap.add_argument("--replay")
    ap.add_argument("--budget", type=float)
    ap.add_argument("--workers", type=int)
    ap.add_argument("--seed", type=int)
    a = ap.parse_args(argv)
    if a.prop == "selftest":
        from .selftest import main as st
        return st(a)
    pid = a.prop.upper()
    from . import runner
    if a.replay:
        return runner.replay_main(pid, a.replay)
    return runner.check_main(pid, a.tier, a.budget, a.workers, a.seed)


if __name__ == "__main__":
    rc = main(sys.argv[1:])
    sys.stdout.flush()
    try:
        from .runner import _remove_process_scratch
        _remove_process_scratch()
    except Exception:  # noqa: BLE001 - never turn a verdict into a crash while cleaning up
        pass
    os._exit(rc)
